"""E1/E6: partial evaluator over the AST.

Translates statements and expressions into *normalised terms* (nested tuples):
constants fold, local temporaries are substituted (def-use), commutative operators
are flattened and sorted, if/else becomes a gated ``ite``, loops become summaries
``('for', id, iter, inits, nexts, effects)`` over phi symbols, attribute and item
stores become functional updates of the object term.  Two pieces of code that
differ only by names of locals, temporaries, statement order of independent
assignments, ``x += y`` vs ``x = x + y``, tuple vs sequential assignment, operand
order of commutative operators or early-return vs else have the same term.

This is value numbering on gated SSA; no path is enumerated, nothing is executed
on data.  Only *constant* sub-expressions are evaluated (constant folding).
"""
import ast, re, os

MAX_FOLD_LEN = 70000
MAX_UNROLL = 4096


def Purity_ways(v):
    """names whose object the value of expression v may be / contain (see sa/purity.py)"""
    from .purity import Purity
    return [w.id for w in Purity._ways_in(v) if isinstance(w, ast.Name)]      # x itself, not x.a / x[i] (those are other objects)


class StaticRaise(Exception):
    def __init__(self, term):
        Exception.__init__(self, 'raises')
        self.term = term


class Unsupported(Exception):
    def __init__(self, msg, node=None):
        self.node = node
        line = getattr(node, 'lineno', None)
        Exception.__init__(self, msg + (' (line %s)' % line if line else ''))


class Refused(Unsupported):
    """the construct is understood, but the summary made here would not be faithful to it (a nested function sharing state that
    changes with its enclosing function): a function using it cannot be shown to be the specified computation"""


class NotConcrete(Exception):
    pass


def C(v):
    return ('c', v)


NONE, TRUE, FALSE = C(None), C(True), C(False)


def is_c(t):
    return type(t) is tuple and len(t) == 2 and t[0] == 'c'


def is_int(t):
    return is_c(t) and type(t[1]) is int


def to_py(t):
    tag = t[0]
    if tag == 'c':
        return t[1]
    if tag == 'list':
        return [to_py(x) for x in t[1]]
    if tag == 'tuple':
        return tuple(to_py(x) for x in t[1])
    if tag == 'dict':
        return {to_py(k): to_py(v) for k, v in t[1]}
    if tag == 'set':
        return set(to_py(x) for x in t[1])
    if tag == 'range':
        a, b, c = (to_py(x) for x in t[1:4])
        if all(type(x) is int for x in (a, b, c)):
            return range(a, b, c)
    raise NotConcrete(tag)


def from_py(v):
    if isinstance(v, (bool, int, float, str, bytes, type(None))):
        return C(v)
    if isinstance(v, list):
        return ('list', tuple(from_py(x) for x in v))
    if isinstance(v, tuple):
        return ('list', tuple(from_py(x) for x in v))     # constant tuples and lists share one canonical form
    if isinstance(v, range):
        return ('range', C(v.start), C(v.stop), C(v.step))
    if isinstance(v, dict):
        return ('dict', tuple(sorted(((from_py(k), from_py(x)) for k, x in v.items()), key=lambda kv: skey(kv[0]))))
    if isinstance(v, (set, frozenset)):
        return ('set', tuple(sorted((from_py(x) for x in v), key=skey)))
    if isinstance(v, bytearray):
        return C(bytes(v))
    raise NotConcrete(type(v).__name__)


def concrete(t):
    try:
        to_py(t)
        return True
    except NotConcrete:
        return False


_skey_cache = {}


def skey(t):
    k = id(t)
    r = _skey_cache.get(k)
    if r is None or r[0] is not t:
        r = (t, repr(t))
        if len(_skey_cache) > 200000:
            _skey_cache.clear()
        _skey_cache[k] = r
    return r[1]


def tree_size(t, memo, cap=10**7):
    """Size of the term as a tree (shared sub-terms counted every time), memoised by identity."""
    if type(t) is not tuple:
        return 1
    k = id(t)
    r = memo.get(k)
    if r is not None:
        return r
    n = 1
    for x in t:
        if type(x) is tuple:
            n += tree_size(x, memo, cap)
            if n > cap:
                break
    memo[k] = n
    return n


def iter_items(t):
    """Elements of a statically known iterable, or None."""
    tag = t[0]
    if tag in ('list', 'tuple', 'set'):
        return list(t[1])
    if tag == 'range':
        try:
            r = to_py(t)
        except NotConcrete:
            return None
        try:
            if len(r) > MAX_FOLD_LEN:
                return None
        except OverflowError:
            return None
        return [C(i) for i in r]
    if tag == 'c' and isinstance(t[1], (bytes, str)):
        return [C(x) for x in t[1]]
    if tag == 'dict':
        return [k for k, v in t[1]]
    return None


# ---------------------------------------------------------------------------
# constructors with normalisation
# ---------------------------------------------------------------------------
AC_OPS = {'^', '&', '|', '*'}
IDENT = {'^': 0, '|': 0, '+': 0, '*': 1}
NUMERIC_CALLS = {'rol', 'ror', 'rot', 'Bits', 'len', 'int', 'sum', 'abs', 'ord', 'gmul', 'min', 'max'}
SEQ_CALLS = {'bytes', 'pack', 'list', 'tuple', 'str', 'bytearray'}


# attributes that hold plain integers everywhere in crysp (sizes, counters, payload ints)
NUM_ATTRS = {'size', 'ival', 'mask', 'blocksize', 'blocklen', 'wsize', 'bitcnt', 'padcnt', 'dim', 'outlen', 'hsize',
             'Nb', 'Nk', 'Nr', 'Nw', 'No', 'Yl', 'Yf', 'Ym', 'rounds', 'dround', 'keylen', 'chunksize', 'bktlen', 'codesize',
             'wnd_size', 'chklen', 'data_len', 'count', '__sz', 'bytesize', 'fanout', 'depth', 'ndepth', 'inner'}


SEQ_ATTRS = set()      # attributes that hold a Python sequence in the module under analysis (set_context)


def set_context(rel):
    """Poly keeps its coefficients in the list `ival` (Bits keeps an int there): `+` on it is concatenation."""
    global SEQ_ATTRS
    SEQ_ATTRS = {'ival'} if rel == 'crysp/poly.py' else set()


def is_pyint(t):
    """certainly a plain Python int (not a Bits / Poly / float): constants, range indices, len(), integer attributes"""
    tag = t[0]
    if tag == 'c':
        return type(t[1]) is int
    if tag == 'rangelen':
        return True
    if tag in ('it', 'bv', 'cnt'):
        return t[-1] == 'num'
    if tag == 'attr':
        return t[2] in NUM_ATTRS and t[2] not in SEQ_ATTRS and t[2] != 'ival'
    if tag == 'call':
        f = t[1]
        return f[0] in ('g', 'b') and f[1] in ('len', 'ord', 'int') or (f[0] == 'attr' and f[2] in ('int', 'hw', 'bit_length'))
    if tag in ('+', '*'):
        return all(is_pyint(x) for x in t[1])
    if tag in ('//', '%', '-', '<<', '>>', '&', '|', '^', '**'):
        return all(is_pyint(x) for x in t[1])
    if tag == 'neg':
        return is_pyint(t[1])
    if tag == 'hoist':
        return is_pyint(t[1])
    if tag == 'afterlocal':
        return is_pyint(t[2])
    if tag == 'ite':
        return is_pyint(t[2]) and is_pyint(t[3])
    if tag == 'idx' and is_int(t[2]) and t[2][1] in (0, 1) and t[1][0] == 'call' and t[1][1] == ('b', 'divmod') \
            and len(t[1][2]) == 2 and not t[1][3]:
        return is_pyint(t[1][2][0]) and is_pyint(t[1][2][1])      # quotient and remainder of two ints
    if tag == 'idx' and is_int(t[2]) and t[1][0] == 'idx' and t[1][1][0] in ('list', 'tuple') and t[1][1][1]:
        # column k of a literal table whose rows all hold a plain int there:  [[8,'Q'],[4,'L'],...][i][0]
        k = t[2][1]
        return all(r[0] in ('list', 'tuple') and -len(r[1]) <= k < len(r[1]) and is_int(r[1][k]) and type(r[1][k][1]) is int
                   for r in t[1][1][1])
    return False


def is_boolean(t):
    """the term certainly evaluates to True or False"""
    tag = t[0]
    if tag == 'c':
        return isinstance(t[1], bool)
    if tag in ('cmp', 'not'):
        return True
    if tag in ('and', 'or'):
        return all(is_boolean(x) for x in t[1])
    if tag == 'call' and t[1][0] == 'b' and t[1][1] in ('isinstance', 'hasattr', 'callable', 'bool', 'any', 'all', 'issubclass'):
        return True
    return False


def is_bytes(t):
    tag = t[0]
    if tag == 'c':
        return isinstance(t[1], bytes)
    if tag == '*':
        return any(is_bytes(x) for x in t[1]) and all(is_bytes(x) or is_pyint(x) for x in t[1])
    if tag == '+':
        return all(is_bytes(x) for x in t[1])
    if tag == 'call':
        f = t[1]
        return (f[0] in ('g', 'b') and f[1] in ('bytes', 'pack')) or (f[0] == 'attr' and f[2] in ('bytes', 'join') and (f[2] != 'join' or is_bytes(f[1])))
    return False


def kind_of(t):
    """'num' | 'seq' | None (unknown)"""
    tag = t[0]
    if tag == 'c':
        v = t[1]
        if isinstance(v, (bool,)):
            return 'num'
        if isinstance(v, (int, float)):
            return 'num'
        if isinstance(v, (bytes, str)):
            return 'seq'
        return None
    if tag in ('list', 'tuple', 'comp'):
        return 'seq'
    if tag in ('^', '&', '|', '<<', '>>', '-', '%', '//', 'neg', 'inv', 'cmp', '**', 'rangelen'):
        return 'num'
    if tag in ('+', '*'):
        ks = [kind_of(x) for x in t[1]]
        if 'seq' in ks:
            return 'seq'
        if 'num' in ks and tag == '+':
            return 'num'
        if tag == '*' and ks and all(k == 'num' for k in ks):
            return 'num'
        return None
    if tag in ('phi', 'after', 'it', 'bv', 'cnt') and type(t[-1]) is str:
        return t[-1]
    if tag == 'attr' and t[2] in SEQ_ATTRS:
        return 'seq'
    if tag == 'attr' and t[2] in NUM_ATTRS:
        return 'num'
    if tag == 'afterlocal':
        return kind_of(t[2])
    if tag == 'hoist':
        return kind_of(t[1])
    if tag == 'ite' and len(t) == 4:
        k = kind_of(t[2])
        return k if k is not None and k == kind_of(t[3]) else None
    if tag == 'call':
        f = t[1]
        name = None
        if f[0] in ('g', 'b'):
            name = f[1]
        elif f[0] == 'attr':
            name = f[2]
            if name == 'join' or name == 'bytes' or name == 'ljust':
                return 'seq'
            if name in ('int', 'hw', 'hd', 'bit'):
                return 'num'
            return None
        if name in NUMERIC_CALLS:
            return 'num'
        if name in SEQ_CALLS:
            return 'seq'
    return None


def _safe_binop(op, a, b):
    if op == '+':
        r = a + b
    elif op == '-':
        r = a - b
    elif op == '*':
        if isinstance(a, (bytes, str, list, tuple)) or isinstance(b, (bytes, str, list, tuple)):
            n = b if isinstance(b, int) else a
            s = a if isinstance(b, int) else b
            if not isinstance(n, int) or n * len(s) > MAX_FOLD_LEN:
                raise NotConcrete('big')
        r = a * b
    elif op == '//':
        r = a // b
    elif op == '/':
        r = a / b
    elif op == '%':
        if isinstance(a, (str, bytes)):
            r = a % b
        else:
            r = a % b
    elif op == '**':
        if isinstance(b, int) and abs(b) > 4096:
            raise NotConcrete('big')
        r = a ** b
    elif op == '<<':
        if b > 100000:
            raise NotConcrete('big')
        r = a << b
    elif op == '>>':
        r = a >> b
    elif op == '&':
        r = a & b
    elif op == '|':
        r = a | b
    elif op == '^':
        r = a ^ b
    elif op == '@':
        raise NotConcrete('@')
    else:
        raise NotConcrete(op)
    return r


class SigInfo(list):
    """positional parameter names of a callee, with .defaults (constant default terms or None) aligned to them"""
    def __init__(self, names, defaults):
        super().__init__(names)
        self.defaults = list(defaults)


class Opts:
    """Normalisation options for one comparison."""
    def __init__(self, plus_commutes=False, ordered=False):
        self.plus_commutes = plus_commutes
        self.ordered = ordered      # keep operand order of every operator (reflected-operator methods dispatch on it)


def _divmod_identity(items, opts):
    """c*(x//c) + x%c  ->  x   over Python ints"""
    for i, a in enumerate(items):
        if a[0] == '%' and is_int(a[1][1]) and type(a[1][1][1]) is int and is_pyint(a[1][0]):
            x, c = a[1][0], a[1][1]
            want = ('//', (x, c))
            for j, b in enumerate(items):
                if j != i and b[0] == '*' and len(b[1]) == 2 and c in b[1] and want in b[1] and b[1][0] != b[1][1]:
                    rest = [y for k, y in enumerate(items) if k not in (i, j)]
                    out = rest + ([x] if x[0] != '+' else list(x[1]))
                    return _divmod_identity(_collect_like(out, opts), opts)
    return items


def _collect_like(items, opts):
    """x + x -> 2*x ; k1*x + k2*x -> (k1+k2)*x   (numeric, commutative sums only)"""
    coef = {}
    order = []
    for x in items:
        k, base = 1, x
        if x[0] == '*' and len(x[1]) == 2 and is_int(x[1][0]) != is_int(x[1][1]):
            c, base = (x[1][0], x[1][1]) if is_int(x[1][0]) else (x[1][1], x[1][0])
            k = c[1]
        if is_c(base):
            k, base = 1, x
        if base not in coef:
            coef[base] = 0
            order.append(base)
        coef[base] += k
    if len(order) == len(items):
        return items
    out = []
    for base in order:
        k = coef[base]
        if k == 0 and not is_c(base):
            continue
        out.append(base if k == 1 else mk_bin('*', C(k), base, opts))
    return out or [C(0)]


def mk_neg(b, opts=None):
    if is_c(b) and isinstance(b[1], (int, float)) and not isinstance(b[1], bool):
        return C(-b[1])
    if b[0] == '+':
        acc = None
        for x in b[1]:
            n = mk_neg(x, opts)
            acc = n if acc is None else mk_bin('+', acc, n, opts)
        return acc
    if b[0] == '*' and len(b[1]) == 2 and is_int(b[1][0]) != is_int(b[1][1]):
        c, base = (b[1][0], b[1][1]) if is_int(b[1][0]) else (b[1][1], b[1][0])
        return base if c[1] == -1 else mk_bin('*', C(-c[1]), base, opts)
    return mk_bin('*', C(-1), b, opts)


SEQ_METHODS = {'split', 'bitlist', 'span', 'keys', 'values', 'items', 'unpack', 'indices', 'bytes', 'copy', 'encode', 'digest', 'hex',
               'zfill', 'ljust', 'rjust', 'format', 'join', 'strip', 'lstrip', 'rstrip', 'replace', 'lower', 'upper', 'decode', 'translate'}
SEQ_BUILTINS = {'list', 'tuple', 'bytes', 'bytearray', 'sorted', 'str', 'unpack', 'pack'}


def _len_of(S):
    if S[0] in ('list', 'tuple'):
        return C(len(S[1]))
    if S[0] == 'c' and isinstance(S[1], (bytes, str)):
        return C(len(S[1]))
    return ('call', ('b', 'len'), (S,), ())


def mk_rangelen(dist):
    """number of elements of a unit-step range whose bounds are `dist` apart"""
    if is_int(dist):
        return C(max(0, dist[1]))
    return ('rangelen', dist)


def canon_range(n):
    """range(0, n): as an iteration space max(0, d) and d are the same bound (a negative d is an empty range either way)"""
    if n[0] == 'rangelen':
        n = n[1]
    return ('range', C(0), n, C(1))


def range_len(r):
    """len(r) for a range object, without the C ssize_t limit of len()."""
    a, b, st = r.start, r.stop, r.step
    if st > 0:
        return max(0, (b - a + st - 1) // st)
    return max(0, (a - b - st - 1) // (-st))


def canon_seq(S, opts=None):
    """(length term, k -> element term) for an iterable that is certainly indexable, else None (opaque iterator)"""
    tag = S[0]
    if tag == 'range' and S[3] in (C(1), C(-1)) and not (S[1] == C(0) and S[3] == C(1)) \
            and not (is_int(S[1]) and is_int(S[2])):
        # unit-step ranges with symbolic bounds: the trip count is max(0, distance); range(a,b,-1) runs a, a-1, .., b+1
        a, b, st = S[1], S[2], S[3]
        o_ = Opts(plus_commutes=True)
        dist = mk_bin('+', b, mk_neg(a, o_), o_) if st == C(1) else mk_bin('+', a, mk_neg(b, o_), o_)
        return mk_rangelen(dist), (lambda k: mk_bin('+', a, mk_bin('*', st, k, o_), o_))
    if tag == 'call' and S[1] == ('b', 'reversed') and len(S[2]) == 1 and not S[3] and S[2][0][0] == 'range' \
            and S[2][0][3] == C(1) and not (is_int(S[2][0][1]) and is_int(S[2][0][2])):
        # reversed(range(lo, hi)) runs hi-1, hi-2, .., lo  (inside the loop the trip count is exactly hi-lo)
        lo, hi = S[2][0][1], S[2][0][2]
        o_ = Opts(plus_commutes=True)
        dist = mk_bin('+', hi, mk_neg(lo, o_), o_)
        n_ = hi if lo == C(0) else mk_rangelen(dist)
        return n_, (lambda k: mk_bin('+', mk_bin('+', hi, C(-1), o_), mk_neg(k, o_), o_))
    if tag == 'range':
        a, b, st = S[1], S[2], S[3]
        if a == C(0) and st == C(1):
            n = b
        else:
            try:
                n = C(range_len(to_py(S)))
            except (NotConcrete, OverflowError):
                n = ('call', ('b', 'len'), (S,), ())
                if is_int(st) and st[1] != 0 and is_pyint(a) and is_pyint(b):
                    d_ = mk_bin('+', b, mk_neg(a, opts), Opts(plus_commutes=True))
                    if is_int(d_):
                        n = C(range_len(range(0, d_[1], st[1])))   # range(a, a+c, st) has a constant length
        return n, (lambda k: mk_bin('+', a, mk_bin('*', st, k, opts), opts))
    if tag == 'call' and S[1] == ('b', 'reversed') and len(S[2]) == 1 and not S[3]:
        inner = canon_seq(S[2][0], opts)
        if inner is None:
            return None
        n, g = inner
        return n, (lambda k: g(mk_bin('+', mk_bin('+', n, C(-1), opts), mk_neg(k, opts), opts)))
    if tag == 'idx' and S[2] == ('slice', NONE, NONE, C(-1)):
        return canon_seq(('call', ('b', 'reversed'), (S[1],), ()), opts)
    if tag in ('list', 'tuple') and len(S[1]) >= 2 and all(is_int(x) and type(x[1]) is int for x in S[1]):
        vals = [x[1] for x in S[1]]
        d = vals[1] - vals[0]
        if d != 0 and all(vals[i + 1] - vals[i] == d for i in range(len(vals) - 1)):
            # an arithmetic progression written out (e.g. a folded reversed(range(n))): closed form
            return C(len(vals)), (lambda k: mk_bin('+', C(vals[0]), mk_bin('*', C(d), k, opts), opts))
    ok = tag in ('arg', 'attr', 'g', 'idx', 'phi', 'after', 'afterlocal', 'hoist', 'upd', 'list', 'tuple', 'comp', '+', '*', 'sym', 'ite', 'mut', 'obj', 'fstr')
    if tag == 'c' and isinstance(S[1], (bytes, str)):
        ok = True
    if tag == 'call' and not ok:
        f = S[1]
        if f[0] in ('g', 'b') and f[1] in SEQ_BUILTINS:
            ok = True
        elif f[0] == 'attr' and f[2] in SEQ_METHODS:
            ok = True
    if not ok:
        return None
    return _len_of(S), (lambda k: get_idx(S, k))


def canon_iter(it, opts=None):
    """Canonical iteration space: (number of iterations n, k -> value bound to the loop target) with k in range(n);
    enumerate / zip / reversed / direct iteration over an indexable value all become index loops.  None: leave as is."""
    if it[0] == 'range':
        if it[1] == C(0) and it[3] == C(1):
            return None
        if not (is_int(it[3]) and it[3][1] != 0):
            return None
        return canon_seq(it, opts)       # every range loop runs over k = 0..n-1 with i = a + st*k
    if it[0] == 'call' and it[1] == ('b', 'enumerate') and len(it[2]) in (1, 2) and not it[3]:
        base = canon_seq(it[2][0], opts)
        if base is None:
            return None
        n, g = base
        start = it[2][1] if len(it[2]) == 2 else C(0)
        return n, (lambda k: ('tuple', (mk_bin('+', k, start, opts) if start != C(0) else k, g(k))))
    if it[0] == 'call' and it[1] == ('b', 'zip') and len(it[2]) >= 1 and not it[3]:
        bases = [canon_seq(a, opts) for a in it[2]]
        if any(b is None for b in bases):
            return None
        prim = [b for a, b in zip(it[2], bases) if a[0] != 'range'] or bases
        n = prim[0][0]
        return n, (lambda k: ('tuple', tuple(b[1](k) for b in bases)))
    base = canon_seq(it, opts)
    if base is None:
        return None
    return base



def shift_binders(t, base, by):
    """add `by` to the depth of every comprehension / lambda binder of depth >= base inside t"""
    def rec(x):
        if type(x) is not tuple or not x:
            return x
        tag = x[0]
        if tag in ('bv', 'p') and type(x[1]) is int and x[1] >= base:
            return (tag, x[1] + by) + tuple(x[2:])
        if tag == 'comp' and type(x[2]) is int and x[2] >= base:
            return ('comp', x[1], x[2] + by) + tuple(rec(y) for y in x[3:])
        if tag == 'lam' and type(x[2]) is int and x[2] >= base:
            return ('lam', x[1], x[2] + by) + tuple(rec(y) for y in x[3:])
        return tuple(rec(y) if type(y) is tuple else y for y in x)
    return rec(t)


def mentions(t, pred):
    return any(pred(x) for x in walk(t))

def mk_fstr(parts):
    """formatted string in normal form: adjacent literal pieces merged, a single literal is a constant"""
    out = []
    for x in parts:
        if is_c(x) and isinstance(x[1], str):
            if x[1] == '':
                continue
            if out and is_c(out[-1]):
                out[-1] = C(out[-1][1] + x[1])
                continue
        out.append(x)
    if not out:
        return C('')
    if len(out) == 1 and is_c(out[0]):
        return out[0]
    return ('fstr', tuple(out))


_PCT = re.compile(r'%(?:(%)|([-+ #0]*)(\d*)(?:\.(\d+))?([sdcxXorf]))')


def percent_format(fmt, arg):
    """'literal %d text %s' % (a, b)  as the formatted string  f'literal {a} text {b}'  (plain conversions only)"""
    args = list(arg[1]) if arg[0] == 'tuple' else [arg]
    parts, pos, k = [], 0, 0
    for m in _PCT.finditer(fmt):
        if '%' in fmt[pos:m.start()]:
            return None
        parts.append(C(fmt[pos:m.start()]))
        pos = m.end()
        if m.group(1):
            parts.append(C('%'))
            continue
        if k >= len(args):
            return None
        flags, width, prec, typ = m.group(2) or '', m.group(3) or '', m.group(4), m.group(5)
        if typ == 'r':
            parts.append(('fmt', args[k], C(''), 114))
        else:
            spec = flags + width + ('.' + prec if prec else '') + (typ if typ not in ('s', 'd', 'c') else '')
            if typ == 'c' and (flags or width):
                return None
            parts.append(('fmt', args[k]) if spec == '' else ('fmt', args[k], C(spec), -1))
        k += 1
    if '%' in fmt[pos:] or k != len(args):
        return None
    parts.append(C(fmt[pos:]))
    return mk_fstr(parts)


def mk_comp(kind, d, elt, gens):
    """[x for x in S] is list(S)"""
    if kind == 'list' and len(gens) == 1 and not gens[0][1]:
        it = gens[0][0]
        if elt == ('bv', d, 0):
            return ('call', ('b', 'list'), (it,), ())
        if it[0] == 'range' and it[1] == C(0) and it[3] == C(1) and elt[0] == 'idx' and elt[2] == ('bv', d, 0, 'num') \
                and it[2] == _len_of(elt[1]) and not mentions(elt[1], lambda x: x[0] == 'bv' and x[1] == d):
            return ('call', ('b', 'list'), (elt[1],), ())
        # [f(c[i]) for i in range(len(c))]  with  c = [g(j) for j in range(n)]   is   [f(g(i)) for i in range(n)]
        # (a comprehension over a comprehension: both are pure value terms here - one whose body may write is run as a loop)
        if it[0] == 'range' and it[1] == C(0) and it[3] == C(1) and it[2][0] == 'call' and it[2][1] == ('b', 'len') \
                and len(it[2][2]) == 1 and not it[2][3]:
            inner = it[2][2][0]
            bv = ('bv', d, 0, 'num')
            if inner[0] == 'comp' and inner[1] == 'list' and inner[2] == d and len(inner[4]) == 1 and not inner[4][0][1] \
                    and inner[4][0][0][0] == 'range' and inner[4][0][0][1] == C(0) and inner[4][0][0][3] == C(1):
                hit = ('idx', inner, bv)
                rest = substitute_raw(elt, {hit: ('sym', '$fused')})
                if rest != elt and not mentions(rest, lambda x: x == inner):
                    return mk_comp(kind, d, substitute_raw(elt, {hit: inner[3]}), ((inner[4][0][0], ()),))
    return ('comp', kind, d, elt, gens)


def substitute_raw(t, sub):
    """structural replacement without re-normalising (the replaced and the replacing terms have the same value)"""
    if type(t) is not tuple or not t:
        return t
    r = sub.get(t)
    if r is not None:
        return r
    return tuple(substitute_raw(x, sub) if type(x) is tuple else x for x in t)


def force_num(t, opts=None):
    """t is known not to be a Python sequence: rebuild `+` inside it as the commutative sum"""
    if t[0] == '+':
        o2 = Opts(plus_commutes=True, ordered=False) if opts is None else Opts(plus_commutes=True, ordered=opts.ordered)
        acc = None
        for x in t[1]:
            x = force_num(x, opts)
            acc = x if acc is None else mk_bin('+', acc, x, o2)
        return acc
    if t[0] == '-' and len(t[1]) == 2:
        o2 = Opts(plus_commutes=True, ordered=False) if opts is None else Opts(plus_commutes=True, ordered=opts.ordered)
        return mk_bin('+', force_num(t[1][0], opts), mk_neg(force_num(t[1][1], opts), o2), o2)
    if t[0] == 'ite':
        return ('ite', t[1], force_num(t[2], opts), force_num(t[3], opts))
    return t


def mk_bin(op, a, b, opts=None):
    # constant folding
    if is_c(a) and is_c(b):
        try:
            return from_py(_safe_binop(op, a[1], b[1]))
        except NotConcrete:
            pass
        except Exception:
            pass   # e.g. TypeError: keep symbolic, a kind rule may report it
    if op in ('^', '&', '|', '<<', '>>', '-', '%', '//', '**') and not (opts is not None and opts.ordered):
        # an operand of these operators is never a Python sequence, so a `+` inside it commutes
        if not (op == '%' and (kind_of(a) == 'seq' or (a[0] == '+' and any(kind_of(x) == 'seq' for x in a[1])))):
            a = force_num(a, opts)
        if not (op == '%' and kind_of(a) == 'seq'):
            b = force_num(b, opts)
    if op == '%' and is_int(b) and type(b[1]) is int and b[1] > 0 and is_pyint(a) and not (opts is not None and opts.ordered):
        m_ = b[1]
        if a[0] == '%' and is_int(a[1][1]) and type(a[1][1][1]) is int and a[1][1][1] > 0 and a[1][1][1] % m_ == 0:
            return mk_bin('%', a[1][0], b, opts)                   # (x % (k*m)) % m == x % m
        if a[0] == '+':
            keep = []
            for x in a[1]:
                if is_int(x) and type(x[1]) is int:
                    if x[1] % m_:
                        keep.append(C(x[1] % m_))
                    continue
                if x[0] == '*' and any(is_int(y) and type(y[1]) is int and y[1] % m_ == 0 for y in x[1]):
                    continue                                       # a multiple of m
                if x[0] == '%' and is_int(x[1][1]) and type(x[1][1][1]) is int and x[1][1][1] > 0 and x[1][1][1] % m_ == 0:
                    keep.append(x[1][0])
                    continue
                keep.append(x)
            if len(keep) != len(a[1]) or any(k1 is not k2 for k1, k2 in zip(keep, a[1])):
                if not keep:
                    return C(0)
                acc = keep[0]
                for x in keep[1:]:
                    acc = mk_bin('+', acc, x, opts)
                return mk_bin('%', acc, b, opts) if acc != a else ('%', (a, b))
    if op in ('//', '%') and is_int(b) and type(b[1]) is int and b[1] > 0 and a[0] == '*' and is_pyint(a):
        cs = [y for y in a[1] if is_int(y) and type(y[1]) is int]
        if len(cs) == 1 and cs[0][1] % b[1] == 0:
            if op == '%':
                return C(0)
            rest = [y for y in a[1] if y is not cs[0]]
            q = cs[0][1] // b[1]
            acc = C(q)
            for y in rest:
                acc = mk_bin('*', acc, y, opts)
            return acc
    if op == '>>' and a[0] == '&' and len(a[1]) == 2 and not is_c(b) and not (opts is not None and opts.ordered):
        # (x & ((1<<hi)-1)) >> lo   ==   (x >> lo) & ((1<<(hi-lo))-1)      (0 <= lo <= hi)
        o_ = Opts(plus_commutes=True)
        for m_, x_ in (a[1], a[1][::-1]):
            if m_[0] == '+' and len(m_[1]) == 2 and C(-1) in m_[1]:
                sh_ = [y for y in m_[1] if y != C(-1)][0]
                if sh_[0] == '<<' and sh_[1][0] == C(1) and kind_of(x_) == 'num':
                    hi_ = sh_[1][1]
                    width = mk_bin('+', hi_, mk_neg(b, o_), o_)
                    newmask = mk_bin('+', mk_bin('<<', C(1), width, o_), C(-1), o_)
                    return mk_bin('&', mk_bin('>>', x_, b, opts), newmask, opts)
    if op == '**' and a == C(2) and not is_c(b):
        return mk_bin('<<', C(1), b, opts)
    if is_int(b) and type(b[1]) is int and is_pyint(a) and not (opts is not None and opts.ordered):
        # plain Python ints: x<<c == x*2^c, x>>c == x//2^c, x & (2^c-1) == x % 2^c
        c = b[1]
        if op == '<<' and 0 <= c <= 256:
            return mk_bin('*', a, C(1 << c), opts)
        if op == '>>' and 0 <= c <= 256:
            return mk_bin('//', a, C(1 << c), opts)
        if op == '&' and c > 0 and (c & (c + 1)) == 0:
            return mk_bin('%', a, C(c + 1), opts)
    if op == '&' and is_int(a) and type(a[1]) is int and is_pyint(b) and a[1] > 0 and (a[1] & (a[1] + 1)) == 0 \
            and not (opts is not None and opts.ordered):
        return mk_bin('%', b, C(a[1] + 1), opts)
    if op == '-' and ((opts is not None and opts.plus_commutes) or (kind_of(a) == 'num' and kind_of(b) == 'num')):
        # linear normal form: a - b  ->  a + (-1)*b   (holds in Z and in Z/2^w)
        return mk_bin('+', a, mk_neg(b, opts), opts)
    if op == '+':
        if a[0] == b[0] and a[0] in ('list', 'tuple'):
            if len(a[1]) + len(b[1]) <= MAX_FOLD_LEN:
                return (a[0], a[1] + b[1])
    if op == '*' and ((a == C(0) and is_pyint(b)) or (b == C(0) and is_pyint(a))):
        return C(0)
    if op == '*' and not (opts is not None and opts.ordered):
        # linear normal form: an integer constant distributes over a numeric sum
        for cst, sm in ((a, b), (b, a)):
            if is_int(cst) and type(cst[1]) is int and sm[0] == '+' and (kind_of(sm) == 'num' or (opts is not None and opts.plus_commutes)) \
                    and not any(kind_of(x) == 'seq' for x in sm[1]):
                acc = None
                for x in sm[1]:
                    y = mk_bin('*', cst, x, opts)
                    acc = y if acc is None else mk_bin('+', acc, y, opts)
                return acc
    if op == '*':
        for s, n in ((a, b), (b, a)):
            if s[0] in ('list', 'tuple') and is_int(n):
                if len(s[1]) * max(n[1], 0) <= MAX_FOLD_LEN:
                    return (s[0], s[1] * max(n[1], 0))
    if op == '%' and is_c(a) and isinstance(a[1], (str, bytes)):
        try:
            return C(a[1] % to_py(b))
        except Exception:
            pass
        if isinstance(a[1], str):
            r = percent_format(a[1], b)
            if r is not None:
                return r
    if op in AC_OPS or op == '+':
        items = []
        for x in (a, b):
            if x[0] == op:
                items.extend(x[1])
            else:
                items.append(x)
        if opts is not None and opts.ordered:
            return (op, (a, b))
        commut = op in AC_OPS or (opts is not None and opts.plus_commutes)
        if op == '+' and commut and any(kind_of(x) == 'seq' for x in items):
            commut = False          # a concatenation keeps its order whatever the arithmetic options say
        if op == '+' and not commut:
            ks = [kind_of(x) for x in items]
            if 'num' in ks and 'seq' not in ks:
                commut = True
        if op == '*' and any(kind_of(x) == 'seq' for x in items):
            commut = True   # seq*int == int*seq
        if commut:
            # combine integer constants
            consts = [x for x in items if is_int(x) and type(x[1]) is int]
            if len(consts) > 1:
                acc = consts[0][1]
                for x in consts[1:]:
                    acc = _safe_binop(op, acc, x[1])
                items = [x for x in items if not (is_int(x) and type(x[1]) is int)] + [C(acc)]
            if op == '+':
                items = _collect_like(items, opts)
                items = _divmod_identity(items, opts)
            if op in IDENT and len(items) > 1:
                it2 = [x for x in items if not (is_int(x) and type(x[1]) is int and x[1] == IDENT[op])]
                if it2 and (op != '*' or True):
                    items = it2
            items.sort(key=skey)
        if op == '+' and not commut and len(items) > 1:
            # adjacent list / tuple literals of a concatenation are one literal
            merged = []
            for x in items:
                if merged and x[0] in ('list', 'tuple') and merged[-1][0] == x[0] and len(merged[-1][1]) + len(x[1]) <= MAX_FOLD_LEN:
                    merged[-1] = (x[0], merged[-1][1] + x[1])
                elif x[0] in ('list', 'tuple') and not x[1] and len(items) > 1:
                    continue            # + []
                else:
                    merged.append(x)
            items = merged or [items[0]]
        if len(items) == 1:
            return items[0]
        return (op, tuple(items))
    return (op, (a, b))


CMP_NEG = {'<': '>=', '<=': '>', '>': '<=', '>=': '<', '==': '!=', '!=': '==',
           'is': 'isnot', 'isnot': 'is', 'in': 'notin', 'notin': 'in'}


def _has_float(t):
    return any(x[0] == 'c' and isinstance(x[1], float) for x in walk(t)) or any(x[0] == '/' for x in walk(t))


_LIN = None


def _int_cmp(op, a, b):
    """a < b / a <= b over integers in linear normal form: `<=` becomes `<` (+1), terms with a negative coefficient go to
    the left, the others to the right, the constant to the side where it is positive:  0 < n-len(k)  ==  len(k) < n ;
    -i < sz+1  ==  -i <= sz."""
    global _LIN
    if _LIN is None:
        _LIN = Opts(plus_commutes=True)
    d = mk_bin('+', force_num(b, _LIN), mk_neg(force_num(a, _LIN), _LIN), _LIN)
    if op == '<=':
        d = mk_bin('+', d, C(1), _LIN)
    # the comparison is 0 < d; its negation is 0 < 1-d: one of the two is the canonical atom, the other its `not`
    p = _int_norm(d)
    q = _int_norm(mk_bin('+', C(1), mk_neg(d, _LIN), _LIN))
    if is_c(p) or is_c(q):
        return p

    def has_const(c):
        return any(x[0] == '+' and any(is_int(y) for y in x[1]) for x in (c[2], c[3])) or is_int(c[2]) or is_int(c[3])
    hp, hq = has_const(p), has_const(q)
    if hp != hq:
        return p if not hp else ('not', q)
    return p if skey(p) <= skey(q) else ('not', q)


def _int_norm(d):
    items = list(d[1]) if d[0] == '+' else [d]
    left, right, const = [], [], 0
    for x in items:
        if is_int(x) and type(x[1]) is int:
            const += x[1]
            continue
        coef, base = 1, x
        if x[0] == '*' and len(x[1]) >= 2:
            cs = [y for y in x[1] if is_int(y) and type(y[1]) is int]
            if len(cs) == 1:
                coef = cs[0][1]
                rest = [y for y in x[1] if y is not cs[0]]
                base = rest[0] if len(rest) == 1 else ('*', tuple(rest))
        if coef < 0:
            left.append(base if coef == -1 else mk_bin('*', C(-coef), base, _LIN))
        else:
            right.append(x)
    if not left and not right:
        return C(0 < const)
    if const > 0:
        right.append(C(const))
    elif const < 0:
        left.append(C(-const))

    def total(xs):
        if not xs:
            return C(0)
        acc = xs[0]
        for y in xs[1:]:
            acc = mk_bin('+', acc, y, _LIN)
        return acc
    return ('cmp', '<', total(left), total(right))


def mk_cmp(op, a, b):
    # a comparison with a conditional operand that is decided in one arm:  x < (x if c else y)  is  (False if c else x < y)
    for side, x in ((0, a), (1, b)):
        if x[0] == 'ite' and (a, b)[1 - side][0] != 'ite':
            r1 = mk_cmp(op, x[2], b) if side == 0 else mk_cmp(op, a, x[2])
            r2 = mk_cmp(op, x[3], b) if side == 0 else mk_cmp(op, a, x[3])
            if is_c(r1) or is_c(r2):
                return mk_ite(x[1], r1, r2)
    # fold
    if is_c(a) and is_c(b) or (op in ('in', 'notin') and is_c(a) and b[0] in ('list', 'tuple', 'set', 'dict', 'range', 'c')):
        try:
            x, y = to_py(a), to_py(b)
            r = {'<': lambda: x < y, '<=': lambda: x <= y, '>': lambda: x > y, '>=': lambda: x >= y,
                 '==': lambda: x == y, '!=': lambda: x != y, 'is': lambda: x is y or (x == y and type(x) == type(y) and isinstance(x, (int, str, bytes, bool, type(None)))),
                 'isnot': lambda: not (x is y or (x == y and type(x) == type(y))),
                 'in': lambda: x in y, 'notin': lambda: x not in y}[op]()
            return C(bool(r))
        except NotConcrete:
            pass
        except Exception:
            pass
    # == None  ->  is None
    if op in ('==', '!=') and (b == NONE or a == NONE):
        op = 'is' if op == '==' else 'isnot'
    if op == '>':
        op, a, b = '<', b, a
    elif op == '>=':
        op, a, b = '<=', b, a
    if op in ('<', '<=') and (is_pyint(a) or is_pyint(b)) and kind_of(a) != 'seq' and kind_of(b) != 'seq' \
            and not _has_float(a) and not _has_float(b):
        r = _int_cmp(op, a, b)
        if r is not None:
            return r
    if op in ('==', '!=') and ((is_int(a) and type(a[1]) is int and is_pyint(b)) or (is_int(b) and type(b[1]) is int and is_pyint(a))):
        # x + c1 == c2  is  x == c2 - c1
        cst, oth = (a, b) if is_int(a) else (b, a)
        if oth[0] == '+':
            cs = [y for y in oth[1] if is_int(y) and type(y[1]) is int]
            if cs:
                rest = [y for y in oth[1] if not (is_int(y) and type(y[1]) is int)]
                acc = rest[0]
                for y in rest[1:]:
                    acc = mk_bin('+', acc, y, Opts(plus_commutes=True))
                a, b = C(cst[1] - sum(y[1] for y in cs)), acc
    if op in ('==', '!=', 'is', 'isnot'):
        if skey(b) < skey(a):
            a, b = b, a
    if op == '!=':
        return mk_not(('cmp', '==', a, b))
    if op == 'isnot':
        return mk_not(('cmp', 'is', a, b))
    if op == 'notin':
        return mk_not(('cmp', 'in', a, b))
    if op == '<=':
        return ('not', ('cmp', '<', b, a))      # one order atom: a<=b is not (b<a), as in the integer normal form
    return ('cmp', op, a, b)


def mk_not(t):
    if is_c(t):
        return C(not t[1])
    if t[0] == 'not':
        return t[1]
    if t[0] == 'cmp' and t[1] == '<=':
        # not (a<=b)  ==  b<a   (total orders only: crysp compares ints)
        return mk_cmp('<', t[3], t[2])
    if t[0] in ('and', 'or'):
        # De Morgan (exact, also as values: both sides yield a bool decided by the same operand in the same order)
        return mk_bool('or' if t[0] == 'and' else 'and', [mk_not(x) for x in t[1]])
    return ('not', t)


def truth(t):
    """Statically known truth value of a term, or None."""
    if is_c(t):
        return bool(t[1])
    if t[0] in ('list', 'tuple', 'dict', 'set'):
        return len(t[1]) > 0
    return None


def mk_bool(op, items):
    out = []
    for x in items:
        if x[0] == op:
            out.extend(x[1])
        else:
            out.append(x)
    res = []
    for i, x in enumerate(out):
        tv = truth(x)
        last = (i == len(out) - 1)
        if tv is None or last:
            res.append(x)
            continue
        if op == 'and':
            if tv:
                continue        # truthy operand drops out
            res.append(x)
            break               # falsy: result is x
        else:
            if tv:
                res.append(x)
                break
            continue
    if not res:
        return out[-1]
    # neighbouring operands that are Boolean, free of effects and cannot raise ('k' in **kargs, <parameter> is None) commute
    i = 0
    while i < len(res):
        j = i
        while j < len(res) and _total_atom(res[j]):
            j += 1
        if j - i >= 2:
            run = []
            for x in sorted(res[i:j], key=skey):
                if x not in run:
                    run.append(x)
            res[i:j] = run
            j = i + len(run)
        i = max(j, i + 1)
    if len(res) == 1:
        return res[0]
    return (op, tuple(res))


def _assume(t, val):
    """decide, in the CONDITIONS of the conditionals inside t, the total atoms of val"""
    def bs(c):
        if c in val:
            return C(val[c])
        if c[0] == 'not':
            return mk_not(bs(c[1]))
        if c[0] in ('and', 'or'):
            items = [bs(x) for x in c[1]]
            unit = C(c[0] == 'and')
            rest = [x for x in items if x != unit]          # in a condition only the truth value counts
            if len(rest) < len(items) and (not rest or all(is_boolean(x) or is_c(x) for x in rest)):
                items = rest or [unit]
            return mk_bool(c[0], items)
        return c
    sub = {}
    for x in walk(t):
        if x[0] == 'ite' and len(x) == 4 and x not in sub and bs(x[1]) != x[1]:
            sub[x] = None
    if not sub:
        return t
    for x in list(sub):
        sub[x] = mk_ite(bs(x[1]), _assume(x[2], val), _assume(x[3], val))
    return substitute(t, sub)


def _total_atom(x):
    if x[0] == 'not':
        return _total_atom(x[1])
    if x[0] == 'cmp' and x[1] == 'in' and is_c(x[2]) and type(x[2][1]) is str and x[3][0] == 'sym' and x[3][1].startswith('**'):
        return True
    if x[0] == 'cmp' and x[1] == 'is' and NONE in (x[2], x[3]) and all(y == NONE or y[0] == 'arg' for y in (x[2], x[3])):
        return True
    return False


def _seq_valued(x):
    """certainly a Python sequence (its truth value is len(x) > 0)"""
    return kind_of(x) == 'seq' or (x[0] == 'idx' and x[2][0] == 'slice') or is_bytes(x)


def truth_form(c):
    """A term in CONDITION position (test of if / while / assert / conditional expression): only its truth value matters.
    0 < len(x) and len(x) != 0 are the truth of the sequence x; n != 0 is the truth of the number n."""
    tag = c[0]
    if tag == 'not':
        return mk_not(truth_form(c[1]))
    if tag in ('and', 'or'):
        return mk_bool(tag, [truth_form(x) for x in c[1]])
    if tag == 'cmp' and c[1] in ('<', '=='):
        a, b = c[2], c[3]
        if a == C(0) and b[0] == 'call' and b[1] == ('b', 'len') and len(b[2]) == 1 and not b[3] and _seq_valued(b[2][0]):
            return b[2][0] if c[1] == '<' else ('not', b[2][0])
        if c[1] == '==' and a == C(0) and kind_of(b) == 'num' and is_pyint(b) and b[0] != 'cmp':
            return ('not', b)
    if tag == 'call' and c[1] == ('b', 'bool') and len(c[2]) == 1 and not c[3]:
        return truth_form(c[2][0])
    return c


def canon_cond(c):
    """(condition, flipped): 'not x' -> (x, True); a<=b -> (b<a, True)  so that a test and its negation share one form"""
    c = truth_form(c)
    if c[0] == 'not':
        c2, f = canon_cond(c[1])
        return c2, not f
    if c[0] == 'cmp' and c[1] == '<=':
        return ('cmp', '<', c[3], c[2]), True
    if c[0] == 'or':
        return mk_not(c), True       # a disjunction is tested through its De Morgan dual
    return c, False


def mk_ite(c, a, b):
    tv = truth(c)
    if tv is not None:
        return a if tv else b
    if a == b:
        return a
    c, flipped = canon_cond(c)
    if flipped:
        a, b = b, a
    # inside an arm, nested conditions need not test again what the outer condition has decided - for tests that are pure and
    # cannot raise only (_total_atom), so that no evaluation, and no order of evaluations, is lost
    if c[0] != 'c':
        tot = {}
        for x in (c[1] if c[0] == 'and' else (c,)):
            if _total_atom(x):
                tot[x[1] if x[0] == 'not' else x] = (x[0] != 'not')
        if tot:
            a = _assume(a, tot)
            if c[0] != 'and':
                b = _assume(b, {k: not v for k, v in tot.items()})
            if a == b:
                return a
    if is_c(a) and is_c(b) and a[1] is True and b[1] is False and is_boolean(c):      # (1 if c else 0 is an int, not c)
        return c
    if is_c(a) and is_c(b) and a[1] is False and b[1] is True and is_boolean(c):
        return mk_not(c)
    # a Boolean choice with one constant arm is a conjunction / disjunction (same evaluation order, Boolean values)
    if is_boolean(c):
        if is_c(a) and a[1] is True and is_boolean(b):
            return mk_bool('or', [c, b])
        if is_c(a) and a[1] is False and is_boolean(b):
            return mk_bool('and', [mk_not(c), b])
        if is_c(b) and b[1] is True and is_boolean(a):
            return mk_bool('or', [mk_not(c), a])
        if is_c(b) and b[1] is False and is_boolean(a):
            return mk_bool('and', [c, a])
    # the same object with the same attributes written on either side: one object with conditional attribute values
    if a[0] == 'obj' and b[0] == 'obj' and a[1] == b[1] and [x[1] for x in a[2]] == [x[1] for x in b[2]] \
            and all(x[0] == 'at' for x in a[2] + b[2]):
        return ('obj', a[1], tuple(('at', x[1], mk_ite(c, x[2], y[2])) for x, y in zip(a[2], b[2])))
    # the same function called on either side: one call with conditional arguments  (f(x) if c else f(y)  ==  f(x if c else y))
    if a[0] == 'call' and b[0] == 'call' and a[1] == b[1] and len(a[2]) == len(b[2]) and len(a[3]) == len(b[3]) \
            and all(x[:2] == y[:2] for x, y in zip(a[3], b[3])) and not any(x[0] == 'star' for x in a[2] + b[2]) \
            and sum(1 for x, y in zip(a[2], b[2]) if x != y) + sum(1 for x, y in zip(a[3], b[3]) if x != y) == 1:
        args = tuple(x if x == y else mk_ite(c, x, y) for x, y in zip(a[2], b[2]))
        kw = tuple(x if x == y else (x[0], x[1], mk_ite(c, x[2], y[2])) for x, y in zip(a[3], b[3]))
        return ('call', a[1], args, kw)
    # nested conditionals sharing a branch are one conjunction (evaluation order kept)
    if a[0] == 'ite' and a[3] == b:
        return mk_ite(mk_bool('and', [c, a[1]]), a[2], b)
    if a[0] == 'ite' and a[2] == b:
        return mk_ite(mk_bool('and', [c, mk_not(a[1])]), a[3], b)
    if b[0] == 'ite' and b[3] == a:
        return mk_ite(mk_bool('and', [mk_not(c), b[1]]), b[2], a)
    if b[0] == 'ite' and b[2] == a:
        return mk_ite(mk_bool('and', [mk_not(c), mk_not(b[1])]), b[3], a)
    return ('ite', c, a, b)


def mk_slice(lo, hi, st):
    # x[0:n] is x[:n] and x[a:b:1] is x[a:b] for every sequence type
    if st == C(1):
        st = NONE
    if lo == C(0) and (st == NONE or (is_int(st) and st[1] > 0)):
        lo = NONE
    return ('slice', lo, hi, st)


def _distinct_idx(i, j):
    """definitely different constant indices?"""
    if is_c(i) and is_c(j):
        return i != j
    if i[0] == 'slice' and i[1] == NONE:
        i = ('slice', C(0), i[2], i[3])
    if j[0] == 'slice' and j[1] == NONE:
        j = ('slice', C(0), j[2], j[3])
    if i[0] == 'slice' and j[0] == 'slice' and all(is_int(x) for x in i[1:3] + j[1:3]) \
            and i[3] in (NONE, C(1)) and j[3] in (NONE, C(1)):
        a0, a1, b0, b1 = i[1][1], i[2][1], j[1][1], j[2][1]
        if min(a0, a1, b0, b1) >= 0:
            return a1 <= b0 or b1 <= a0
    if i[0] == 'slice' and is_int(j) and all(is_int(x) for x in i[1:3]) and i[3] in (NONE, C(1)):
        if min(i[1][1], i[2][1], j[1]) >= 0:
            return not (i[1][1] <= j[1] < i[2][1])
    if j[0] == 'slice' and is_int(i):
        return _distinct_idx(j, i)
    return False


REV = ('slice', ('c', None), ('c', None), ('c', -1))


def get_idx(seq, idx):
    tag = seq[0]
    if tag == 'hoist' and seq[1][0] == 'call':
        # reading an item of an object made before the loop is reading an item of that object (as for one held in an attribute)
        return get_idx(seq[1], idx)
    if idx == REV and tag == 'call' and seq[1] == ('b', 'bytes') and len(seq[2]) == 1 and not seq[3] \
            and (seq[2][0][0] in ('list', 'comp') or (kind_of(seq[2][0]) == 'seq' and not is_bytes(seq[2][0]))):
        return ('call', seq[1], (get_idx(seq[2][0], REV),), ())       # bytes(L)[::-1] is bytes(L[::-1]) for a list of byte values
    if idx == REV and tag == 'idx' and seq[2] == REV:
        return seq[1]                      # x[::-1][::-1]
    if idx == REV and tag == 'comp' and seq[1] == 'list' and len(seq[4]) == 1 and not seq[4][0][1]:
        it_ = seq[4][0][0]
        if it_[0] == 'range' and it_[1] == C(0) and it_[3] == C(1):
            # [e(k) for k in range(n)][::-1]  is  [e(n-1-k) for k in range(n)]
            bv_ = ('bv', seq[2], 0, 'num')
            o_ = Opts(plus_commutes=True)
            rk_ = mk_bin('+', mk_bin('+', it_[2], C(-1), o_), mk_neg(bv_, o_), o_)
            return mk_comp('list', seq[2], substitute(seq[3], {bv_: rk_}), seq[4])
    if tag == 'call' and seq[1] == ('b', 'list') and len(seq[2]) == 1 and not seq[3] and canon_seq(seq[2][0]) is not None \
            and seq[2][0][0] != 'call':
        return get_idx(seq[2][0], idx) if not (idx[0] == 'slice') else ('idx', seq, idx)
    if tag in ('list', 'tuple'):
        if is_int(idx):
            n = len(seq[1])
            if -n <= idx[1] < n:
                return seq[1][idx[1]]
        elif idx[0] == 'slice':
            try:
                s = slice(*(to_py(x) for x in idx[1:4]))
                return (tag, tuple(seq[1][s]))
            except NotConcrete:
                pass
        elif idx[0] in ('list', 'tuple') and False:
            pass
    if tag == 'c' and isinstance(seq[1], (bytes, str)):
        try:
            if idx[0] == 'slice':
                return C(seq[1][slice(*(to_py(x) for x in idx[1:4]))])
            if is_int(idx):
                return C(seq[1][idx[1]])
        except (NotConcrete, IndexError):
            pass
    if tag == 'dict' and concrete(idx):
        for k, v in seq[1]:
            if k == idx:
                return v
        # all keys concrete and idx missing -> keep symbolic (KeyError at run time)
    if tag == 'range' and is_int(idx):
        try:
            return C(to_py(seq)[idx[1]])
        except (NotConcrete, IndexError):
            pass
    if tag == 'upd':
        base, entries = seq[1], seq[2]
        for k in range(len(entries) - 1, -1, -1):
            ei, ev = entries[k]
            if ei == idx:
                return ev
            if not _distinct_idx(ei, idx):
                return ('idx', seq, idx)
        return get_idx(base, idx)
    return ('idx', seq, idx)


def _len_preserving(idx, val):
    if idx[0] != 'slice':
        return True
    if idx[3] not in (NONE, C(1)) or val[0] not in ('list', 'tuple') or any(x[0] == 'star' for x in val[1]):
        return False
    lo = C(0) if idx[1] == NONE else idx[1]
    if idx[2] == NONE:
        return False
    d_ = mk_bin('+', idx[2], mk_neg(lo), Opts(plus_commutes=True))
    return d_ == C(len(val[1])) and not (is_int(lo) and lo[1] < 0) and not (is_int(idx[2]) and idx[2][1] < 0)


def set_idx(seq, idx, val):
    tag = seq[0]
    if idx[0] == 'slice' and idx[3] == NONE and val[0] in ('tuple', 'list') and 1 <= len(val[1]) <= 8 and tag != 'list':
        lo = C(0) if idx[1] == NONE else idx[1]
        if idx[2] != NONE and (is_pyint(lo) or is_pyint(idx[2])):
            d_ = mk_bin('+', idx[2], mk_neg(lo), Opts(plus_commutes=True))
            if d_ == C(len(val[1])) and not (is_int(lo) and lo[1] < 0):
                # x[i:i+n] = (v0, .., vn-1) with exactly n values is n element stores
                out = seq
                for k_, v_ in enumerate(val[1]):
                    out = set_idx(out, mk_bin('+', lo, C(k_), Opts(plus_commutes=True)), v_)
                return out
    if tag == 'list' and is_int(idx):
        n = len(seq[1])
        if -n <= idx[1] < n:
            items = list(seq[1])
            items[idx[1]] = val
            return ('list', tuple(items))
    if tag == 'list' and idx[0] == 'slice' and val[0] in ('list', 'tuple'):
        try:
            s = slice(*(to_py(x) for x in idx[1:4]))
            items = list(seq[1])
            items[s] = list(val[1])
            return ('list', tuple(items))
        except (NotConcrete, ValueError):
            pass
    if tag == 'dict' and concrete(idx):
        items = [(k, v) for k, v in seq[1] if k != idx] + [(idx, val)]
        return ('dict', tuple(items))
    if tag == 'upd':
        base, entries = seq[1], list(seq[2])
    else:
        base, entries = seq, []
    # replace same index if everything after it is distinct
    for k in range(len(entries) - 1, -1, -1):
        ei, ev = entries[k]
        if not _len_preserving(ei, ev) or not _len_preserving(idx, val):
            break            # a slice store that may change the length shifts what the other indices mean
        if ei == idx:
            entries[k] = (idx, val)
            return ('upd', base, tuple(entries))
        if not _distinct_idx(ei, idx):
            break
    else:
        # idx distinct from every entry: entries commute -> keep sorted
        entries.append((idx, val))
        if all(_distinct_idx(entries[a][0], entries[b][0]) for a in range(len(entries)) for b in range(a)):
            entries.sort(key=lambda e: skey(e[0]))
        return ('upd', base, tuple(entries))
    entries.append((idx, val))
    return ('upd', base, tuple(entries))


PURE_BUILTINS = {'len', 'abs', 'min', 'max', 'int', 'bool', 'str', 'bytes', 'sum', 'divmod', 'isinstance', 'hasattr',
                 'tuple', 'sorted', 'ord', 'chr', 'float', 'round', 'pow', 'any', 'all', 'range', 'hex', 'bin', 'getattr'}


def owned_fresh(t):
    """t is a sequence object created by this function (a comprehension, a literal, list(...)/sorted(...), a slice copy,
    a concatenation) - not a parameter, an attribute or anything reached through them: updating it in place cannot be seen outside"""
    tag = t[0]
    if tag in ('list', 'comp'):
        return True
    if tag == 'call' and t[1][0] == 'b' and t[1][1] in ('list', 'sorted', 'bytearray'):
        return True
    if tag == 'idx' and t[2][0] == 'slice':
        return True                      # a slice is a new list
    if tag in ('+', '*') and kind_of(t) == 'seq':
        return True
    if tag == 'mut':
        return owned_fresh(t[2])
    if tag == 'upd':
        return owned_fresh(t[1])
    if tag == 'ite':
        return owned_fresh(t[2]) and owned_fresh(t[3])
    return False


def is_alloc(t):
    """Is t the result of a call that may create a stateful object?"""
    while t[0] in ('obj', 'upd'):
        t = t[1]
    if t[0] == 'mut':
        return is_alloc(t[2])
    if t[0] != 'call':
        return False
    f = t[1]
    if f[0] == 'b' and f[1] in PURE_BUILTINS:
        return False
    return True


def mutates(cur, init, depth=0):
    """Is `cur` the object `init` after at least one in-place update (not merely a rebinding of the name)?"""
    t = cur
    n = depth
    while True:
        if t == init:
            return n > 0
        tag = t[0]
        if tag == 'obj' or tag == 'upd':
            t = t[1]
            n += 1
        elif tag == 'mut':
            t = t[2]
            n += 1
        elif tag == 'ite':
            return mutates(t[2], init, n) or mutates(t[3], init, n)
        elif tag in ('after', 'phi', 'tryphi', 'tryany'):
            return True      # loop-carried / merged: conservatively keep
        else:
            return False


def get_attr(obj, name):
    if obj[0] == 'obj':
        for a in obj[2]:
            if a[1] == name:
                return a[2]
        return get_attr(obj[1], name)
    if obj[0] == 'ite':
        a, b = get_attr(obj[2], name), get_attr(obj[3], name)
        return mk_ite(obj[1], a, b)
    if obj[0] == 'mut' and PURITY is not None and type(obj[1]) is str:
        # a call that may write its receiver, but provably not this attribute (sa/purity.py): the attribute is the one from before
        aw = PURITY.attrs_written(obj[1])
        if aw is not None and name not in aw:
            return get_attr(obj[2], name)
    return ('attr', obj, name)


PURITY = None        # sa.purity.Purity of the tree under analysis (set by core.Ctx)


def set_attr(obj, name, val):
    if obj[0] == 'obj':
        d = {a[1]: a[2] for a in obj[2]}
        d[name] = val
        return ('obj', obj[1], tuple(('at', k, d[k]) for k in sorted(d)))
    return ('obj', obj, (('at', name, val),))


def mk_obj(base, attrs):
    return ('obj', base, tuple(('at', k, attrs[k]) for k in sorted(attrs)))


def obj_attrs(t):
    return {a[1]: a[2] for a in t[2]} if t[0] == 'obj' else {}


def call_arg(t, name, pos):
    """argument of a call term given by keyword `name` or at position `pos` (keywords that fill the next positional
    parameters are normalised to positional arguments)"""
    if t[0] != 'call':
        return None
    for k in t[3]:
        if k[1] == name:
            return k[2]
    return t[2][pos] if len(t[2]) > pos else None


def kwargs_of(t):
    """keyword arguments of a call term as a dict"""
    return {k[1]: k[2] for k in t[3]} if t[0] == 'call' else {}


# ---------------------------------------------------------------------------
BIN = {ast.Add: '+', ast.Sub: '-', ast.Mult: '*', ast.FloorDiv: '//', ast.Div: '/', ast.Mod: '%',
       ast.Pow: '**', ast.LShift: '<<', ast.RShift: '>>', ast.BitAnd: '&', ast.BitOr: '|',
       ast.BitXor: '^', ast.MatMult: '@'}
CMP = {ast.Lt: '<', ast.LtE: '<=', ast.Gt: '>', ast.GtE: '>=', ast.Eq: '==', ast.NotEq: '!=',
       ast.Is: 'is', ast.IsNot: 'isnot', ast.In: 'in', ast.NotIn: 'notin'}
MUTATORS = {'append', 'extend', 'insert', 'pop', 'reverse', 'remove', 'sort', 'clear', 'add', 'update',
            'popitem', 'setdefault', 'discard'}
BUILTINS = {'len', 'range', 'int', 'list', 'tuple', 'reversed', 'sum', 'max', 'min', 'abs', 'divmod',
            'bytes', 'sorted', 'enumerate', 'zip', 'ord', 'chr', 'bool', 'str', 'isinstance', 'hasattr',
            'getattr', 'setattr', 'print', 'map', 'filter', 'iter', 'next', 'bytearray', 'set', 'dict',
            'float', 'super', 'object', 'any', 'all', 'slice', 'type', 'id', 'repr', 'hex', 'bin',
            'round', 'pow', 'callable', 'open', 'cmp', 'reduce',
            'ValueError', 'TypeError', 'IndexError', 'KeyError', 'AttributeError', 'AssertionError',
            'NotImplementedError', 'StopIteration', 'ZeroDivisionError', 'Exception', 'NameError',
            'True', 'False', 'None', 'NotImplemented', '__name__', 'staticmethod', 'classmethod',
            'property', 'frozenset', 'memoryview', 'complex', 'format', 'input', 'vars', 'dir',
            'globals', 'locals', 'exit', 'quit', 'UnboundLocalError', 'RuntimeError', 'OverflowError',
            'ArithmeticError', 'LookupError', 'OSError', 'IOError', 'EOFError', 'ImportError',
            'KeyboardInterrupt', 'SystemExit', 'BaseException', 'Warning', 'DeprecationWarning',
            'UnicodeError', 'unichr', 'issubclass', 'delattr', 'hash', 'divmod', 'oct', 'ascii'}
BUILTINS.discard('cmp')      # python2 only
BUILTINS.discard('reduce')   # python2 builtin; python3 needs functools
BUILTINS.discard('unichr')


class Summary:
    def __init__(self):
        self.effects = []
        self.env = {}
        self.funcs = []          # nested function summaries
        self.undefined = []      # (name, lineno)
        self.params = []
        self.sig = None
        self.nloops = 0

    def term(self):
        return ('fn', self.sig if self.sig is not None else len(self.params), tuple(self.effects))


class PE:
    """One evaluation context (a function, or a module body)."""

    def __init__(self, resolve_global=None, global_values=None, unroll=0, opts=None,
                 inline=None, call_hook=None, module_mode=False):
        self.resolve_global = resolve_global       # name -> term or None
        self.global_values = global_values or {}
        self.unroll = unroll
        self.opts = opts or Opts()
        self.inline = inline or {}                 # name -> ast.FunctionDef / ast.Lambda to inline when called
        self.call_hook = call_hook                 # (pe, func_term, args, kwargs, env) -> term or None
        self.module_mode = module_mode
        self.nloops = 0
        self.aliases = {}          # local name -> (attribute path, place AST): the name is a view of that place
        self.inplace_updated = set()
        self.num_names = frozenset()
        self.no_mark = 0           # > 0 inside lambda / comprehension bodies: their calls run elsewhere / are accounted as a whole
        self.local_writers = {}
        self.partial_ops = []      # (sequence, index) item reads / unpackings evaluated so far (they may raise)
        self.self_class = None     # (module, class) when the function being summarised is a method of a known class
        self.self_name = None
        self.local_fdefs = {}      # index of a nested function -> its FunctionDef (calls are written out when it is a pure expression)
        self.cur_fdef = None
        self.fresh_names = set()
        self.bind_count = {}       # name -> number of binding sites in the function being summarised (nested functions excluded)
        self.inplace_updated_objs = set()
        self.obj_writes = {}
        self.purity = None         # sa.purity.Purity of the tree under analysis (set by core.Ctx.pe)
        self.spec_depth = 0        # > 0 while evaluating something that may never be evaluated (later operands of and/or, lambda bodies, ..)
        self.loop_stack = []       # (loop id, environment at the start of the body, names the body assigns) of the loops being summarised
        self.loop_W = {}           # (loop id, rank) -> (attributes the loop stores on that carried object, its initial term)
        self.branch_depth = 0
        self.ntry = 0
        self.lam_depth = 0
        self.sm = Summary()
        self.closures = []

    # -- names ------------------------------------------------------------
    def lookup(self, name, env, node=None):
        if name in env:
            return env[name]
        for cenv in reversed(self.closures):
            if name in cenv:
                return cenv[name]
        if name in self.global_values:
            return self.global_values[name]
        if self.resolve_global is not None:
            r = self.resolve_global(name)
            if r is not None:
                return r
        if name in BUILTINS:
            return ('b', name)
        self.sm.undefined.append((name, getattr(node, 'lineno', 0)))
        return ('undef', name)

    # -- expressions --------------------------------------------------------
    def ev(self, n, env):
        m = getattr(self, 'ev_' + type(n).__name__, None)
        if m is None:
            raise Unsupported('expression ' + type(n).__name__, n)
        return m(n, env)

    def ev_Constant(self, n, env):
        v = n.value
        if v is Ellipsis:
            return ('b', 'Ellipsis')
        return C(v)

    def ev_Name(self, n, env):
        al = self.aliases.get(n.id)
        if al is not None and isinstance(n.ctx, ast.Load):
            return self.ev(al[1], env)        # the name is a view of the place it was bound to
        return self.lookup(n.id, env, n)

    @staticmethod
    def _attr_path(n):
        """('self', 'c', 'ival') for self.c.ival, None if the expression is not a pure attribute chain on a name"""
        path = []
        while isinstance(n, ast.Attribute):
            path.append(n.attr)
            n = n.value
        if isinstance(n, ast.Name) and path:
            return (n.id,) + tuple(reversed(path))
        return None

    def _drop_aliases_under(self, path, env):
        """the place `path` is being rebound: names viewing it (or something below it) keep the object they saw"""
        for name, (q, place) in list(self.aliases.items()):
            if q[:len(path)] == path:
                val = self.ev(place, env)
                del self.aliases[name]
                env[name] = val

    def ev_Tuple(self, n, env):
        items = tuple(self.ev(e, env) for e in n.elts)
        # a tuple literal of constants is a lookup table: same canonical form as the list literal
        if items and all(concrete(x) for x in items):
            return ('list', items)
        return ('tuple', items)

    def ev_List(self, n, env):
        if any(isinstance(e, ast.Starred) for e in n.elts):
            acc, cur = None, []
            for e in n.elts:
                if isinstance(e, ast.Starred):
                    if cur:
                        piece = ('list', tuple(cur))
                        acc = piece if acc is None else mk_bin('+', acc, piece, self.opts)
                        cur = []
                    v = self.ev(e.value, env)
                    r = self.call(('b', 'list'), (v,), (), env)
                    acc = r if acc is None else mk_bin('+', acc, r, self.opts)
                else:
                    cur.append(self.ev(e, env))
            if cur:
                piece = ('list', tuple(cur))
                acc = piece if acc is None else mk_bin('+', acc, piece, self.opts)
            return acc
        return ('list', tuple(self.ev(e, env) for e in n.elts))

    def ev_Set(self, n, env):
        return ('set', tuple(sorted((self.ev(e, env) for e in n.elts), key=skey)))

    def ev_Dict(self, n, env):
        items = []
        for k, v in zip(n.keys, n.values):
            if k is None:
                raise Unsupported('dict unpacking', n)
            items.append((self.ev(k, env), self.ev(v, env)))
        if all(concrete(k) for k, v in items):
            items.sort(key=lambda kv: skey(kv[0]))
        return ('dict', tuple(items))

    def ev_BinOp(self, n, env):
        op = BIN.get(type(n.op))
        if op is None:
            raise Unsupported('operator', n)
        return mk_bin(op, self.ev(n.left, env), self.ev(n.right, env), self.opts)

    def ev_UnaryOp(self, n, env):
        v = self.ev(n.operand, env)
        if isinstance(n.op, ast.Not):
            return mk_not(v)
        if isinstance(n.op, ast.USub):
            if is_c(v) and isinstance(v[1], (int, float)):
                return C(-v[1])
            if kind_of(v) == 'num' and not (self.opts is not None and self.opts.ordered):
                return mk_neg(v, self.opts)
            return ('neg', v)
        if isinstance(n.op, ast.Invert):
            if is_int(v):
                return C(~v[1])
            if kind_of(v) == 'num':
                # ~x == -x-1 for ints and (mod 2^w) for bit vectors
                return mk_bin('+', C(-1), mk_neg(v, self.opts), self.opts)
            return ('inv', v)
        if isinstance(n.op, ast.UAdd):
            return v
        raise Unsupported('unary', n)

    def ev_BoolOp(self, n, env):
        op = 'and' if isinstance(n.op, ast.And) else 'or'
        vals = [self.ev(n.values[0], env)]
        self.spec_depth += 1          # the other operands may not be evaluated at all
        try:
            for v in n.values[1:]:
                e2 = dict(env)
                vals.append(self.ev(v, e2))
                if e2 != env:
                    # the operand ran only if everything before it was true (and) / false (or)
                    c_ = mk_bool(op, list(vals[:-1]))
                    if op == 'and':
                        self.merge_envs(c_, e2, dict(env), env)
                    else:
                        self.merge_envs(c_, dict(env), e2, env)
        finally:
            self.spec_depth -= 1
        return mk_bool(op, vals)

    def ev_Compare(self, n, env):
        left = self.ev(n.left, env)
        parts = []
        for o, c in zip(n.ops, n.comparators):
            right = self.ev(c, env)
            parts.append(mk_cmp(CMP[type(o)], left, right))
            left = right
        if len(parts) == 1:
            return parts[0]
        return mk_bool('and', parts)

    def ev_IfExp(self, n, env):
        c = self.ev(n.test, env)
        tv = truth(c)
        if tv is True:
            return self.ev(n.body, env)
        if tv is False:
            return self.ev(n.orelse, env)
        self.spec_depth += 1
        try:
            # each arm runs on its own copy of the environment (a call that may write its receiver is made on one side only)
            ea, eb = dict(env), dict(env)
            va, vb = self.ev(n.body, ea), self.ev(n.orelse, eb)
            if ea != env or eb != env:
                self.merge_envs(c, ea, eb, env)
            return mk_ite(c, va, vb)
        finally:
            self.spec_depth -= 1

    def ev_Attribute(self, n, env):
        return self.attr_of(self.ev(n.value, env), n.attr)

    def attr_of(self, base, name):
        return get_attr(base, name)

    def ev_Slice(self, n, env):
        f = lambda x: NONE if x is None else self.ev(x, env)
        return mk_slice(f(n.lower), f(n.upper), f(n.step))

    def ev_Subscript(self, n, env):
        base = self.ev(n.value, env)
        idx = self.ev(n.slice, env)
        self.bounds(base, idx)
        if idx[0] != 'slice' and not (base[0] in ('list', 'tuple', 'dict', 'c') and concrete(idx)) and not self.spec_depth and len(self.partial_ops) < 400:
            self.partial_ops.append((base, idx))        # an item read may raise: remembered for guards that come later
        return get_idx(base, idx)

    def bounds(self, base, idx):
        """a constant index outside a sequence of known length: the statement raises IndexError (where it is certainly evaluated)"""
        if self.spec_depth or not (is_int(idx) and type(idx[1]) is int):
            return
        b = base
        while b[0] == 'hoist':
            b = b[1]
        n_ = None
        if b[0] in ('list', 'tuple') and not any(x[0] == 'star' for x in b[1]):
            n_ = len(b[1])
        elif is_c(b) and isinstance(b[1], (bytes, str, list, tuple)):
            n_ = len(b[1])
        if n_ is not None and not (-n_ <= idx[1] < n_):
            raise StaticRaise(('call', ('b', 'IndexError'), (), ()))

    def ev_Starred(self, n, env):
        return ('star', self.ev(n.value, env))

    def ev_JoinedStr(self, n, env):
        parts = [self.ev(v, env) for v in n.values]
        return mk_fstr(parts)

    def ev_FormattedValue(self, n, env):
        spec = ''
        if n.format_spec is not None:
            sp = self.ev(n.format_spec, env)
            if sp[0] == 'fstr' and all(is_c(x) for x in sp[1]):
                spec = ''.join(str(x[1]) for x in sp[1])
            elif is_c(sp):
                spec = str(sp[1])
            else:
                return ('fmt', self.ev(n.value, env), sp, n.conversion)
        if spec in ('d', 's'):
            spec = ''
        conv = n.conversion if n.conversion not in (-1, 115) else -1      # !s is the default
        if spec == '' and conv == -1:
            return ('fmt', self.ev(n.value, env))
        return ('fmt', self.ev(n.value, env), C(spec), conv)

    def ev_Lambda(self, n, env):
        self._check_closure(n)
        return self.make_lambda(n.args, n.body, env, n)

    def make_lambda(self, args, body, env, node):
        if args.vararg or args.kwarg or args.kwonlyargs:
            raise Unsupported('lambda signature', node)
        self.lam_depth += 1
        self.spec_depth += 1
        self.no_mark += 1
        try:
            return self._make_lambda(args, body, env, node)
        finally:
            self.spec_depth -= 1
            self.no_mark -= 1

    def _make_lambda(self, args, body, env, node):
        d = self.lam_depth
        env2 = dict(env)
        names = [a.arg for a in args.args]
        for i, a in enumerate(names):
            env2[a] = ('p', d, i)
        try:
            b = self.ev(body, env2)
        finally:
            self.lam_depth -= 1
        defaults = tuple(self.ev(x, env) for x in args.defaults)
        return ('lam', len(names), d, b, defaults)

    def apply_lambda(self, lam, args):
        n, d, body, defaults = lam[1], lam[2], lam[3], lam[4]
        args = list(args)
        if len(args) < n:
            need = n - len(args)
            if need <= len(defaults):
                args += list(defaults[len(defaults) - need:])
        if len(args) != n:
            return None
        sub = {('p', d, i): a for i, a in enumerate(args)}
        return substitute(body, sub, self.opts)

    def comp(self, n, env, kind, elt_fn):
        gens = n.generators

        def rec(gi, env):
            if gi == len(gens):
                return [elt_fn(env)]
            g = gens[gi]
            if g.is_async:
                raise Unsupported('async comp', n)
            it = it0 if gi == 0 else self.ev(g.iter, env)
            items = iter_items(it)
            if items is None or len(items) > MAX_UNROLL:
                raise NotConcrete('iter')
            out = []
            for x in items:
                env2 = dict(env)
                self.bind_target(g.target, x, env2)
                ok = True
                for cnd in g.ifs:
                    tv = truth(self.ev(cnd, env2))
                    if tv is None:
                        raise NotConcrete('cond')
                    if not tv:
                        ok = False
                        break
                if ok:
                    out.extend(rec(gi + 1, env2))
            return out
        it0 = self.ev(gens[0].iter, env)      # evaluated once, in the enclosing scope
        self.no_mark += 1
        try:
            try:
                return rec(0, env)
            except NotConcrete:
                pass
            # symbolic comprehension
            self.lam_depth += 1
            self.spec_depth += 1
            try:
                return self._comp_symbolic(n, env, kind, elt_fn, gens, it0)
            finally:
                self.spec_depth -= 1
        finally:
            self.no_mark -= 1

    def _comp_symbolic(self, n, env, kind, elt_fn, gens, it0):
        d = self.lam_depth
        try:
            env2 = dict(env)
            for v_ in list(env2):
                t_ = env2[v_]
                if type(t_) is tuple and t_ and t_[0] not in ('c', 'arg', 'g', 'b', 'sym') \
                        and mentions(t_, lambda x: x[0] in ('comp', 'lam') and type(x[2]) is int and x[2] >= d):
                    # a closed comprehension / lambda made earlier at this nesting level: inside the new comprehension its
                    # binders sit one level deeper (keeps binder names unambiguous and equal to the nested spelling)
                    env2[v_] = t_ = shift_binders(t_, d, 1)
                if is_alloc(t_):
                    env2[v_] = ('hoist', t_)      # created before the comprehension, shared by all its iterations
            gl = []
            for gi, g in enumerate(gens):
                it = it0 if gi == 0 else self.ev(g.iter, env2)
                ci = canon_iter(it, self.opts)
                if ci is not None or it[0] == 'range':
                    if ci is not None:
                        it = canon_range(ci[0])
                        self.bind_target(g.target, ci[1](('bv', d, gi, 'num')), env2)
                    else:
                        self.bind_pattern_syms(g.target, env2, lambda path, gi=gi: ('bv', d, gi) + path + ('num',))
                else:
                    self.bind_pattern_syms(g.target, env2, lambda path, gi=gi: ('bv', d, gi) + path)
                conds = tuple(self.ev(c, env2) for c in g.ifs)
                gl.append((it, conds))
            elt = elt_fn(env2)
        finally:
            self.lam_depth -= 1
        return None, mk_comp(kind, d, elt, tuple(gl))

    def _comp_result(self, r, wrap):
        if isinstance(r, list):
            return wrap(r)
        return r[1]

    def _comp_writes(self, n, env, res):
        """[o.step(x) for x in xs]: the comprehension's calls may write objects of the enclosing scope; afterwards those are
        mut('comp', before, <the comprehension>)"""
        bound = set()
        for g in n.generators:
            for x in ast.walk(g.target):
                if isinstance(x, ast.Name):
                    bound.add(x.id)
        roots = []
        parts = [getattr(n, 'elt', None), getattr(n, 'key', None), getattr(n, 'value', None)]
        for k_, g in enumerate(n.generators):
            parts += list(g.ifs) + ([g.iter] if k_ else [])        # the first iterable is evaluated (and accounted) outside
        for x in (y for p_ in parts if p_ is not None for y in ast.walk(p_)):
            if isinstance(x, ast.Call):
                tg = None
                if isinstance(x.func, ast.Attribute) and (x.func.attr in MUTATORS or self._writing(x.func.attr)) \
                        and not self._is_module_name(x.func.value, env):
                    tg = x.func.value
                    while isinstance(tg, (ast.Attribute, ast.Subscript)):
                        tg = tg.value
                    if isinstance(tg, ast.Name) and tg.id not in bound and tg.id in env and tg.id not in roots:
                        roots.append(tg.id)
                for r_ in self._written_args(x):
                    if r_ not in bound and r_ in env and r_ not in roots:
                        roots.append(r_)
        for v in roots:
            nm = ast.Name(id=v, ctx=ast.Load())
            cur = self.ev(nm, env)
            if cur[0] in ('g', 'b'):
                continue
            self.store(nm, ('mut', 'comp', cur, (self._args_sans(cur, (res,))[0],)), env, True)
        return res

    def _comp_as_loop(self, n, env):
        """A list comprehension / generator expression whose element calls something that may write an object of the enclosing
        scope is the append loop it abbreviates: evaluated as that loop, so that both spellings thread the state the same way."""
        if self.spec_depth or self.no_mark or self.purity is None or getattr(self, 'cur_effects', None) is None:
            return None
        bound = set()
        for g in n.generators:
            for x in ast.walk(g.target):
                if isinstance(x, ast.Name):
                    bound.add(x.id)
        writes = False
        parts = [n.elt] + [c for k_, g in enumerate(n.generators) for c in (list(g.ifs) + ([g.iter] if k_ else []))]
        for p_ in parts:
            for x in ast.walk(p_):
                if isinstance(x, ast.Call):
                    tg = None
                    if isinstance(x.func, ast.Attribute) and (x.func.attr in MUTATORS or self._writing(x.func.attr)) \
                            and not self._is_module_name(x.func.value, env) and self._self_call_writes(x.func) != set():
                        tg = x.func.value
                        while isinstance(tg, (ast.Attribute, ast.Subscript)):
                            tg = tg.value
                    if (isinstance(tg, ast.Name) and tg.id not in bound and tg.id in env) or \
                            any(r_ not in bound and r_ in env for r_ in self._written_args(x)):
                        writes = True
                if isinstance(x, (ast.Lambda, ast.ListComp, ast.GeneratorExp, ast.SetComp, ast.DictComp, ast.Yield, ast.YieldFrom, ast.NamedExpr)):
                    return None
        if not writes or any(g.is_async for g in n.generators):
            return None
        self._ncomp = getattr(self, '_ncomp', 0) + 1
        acc = '_comp%d' % self._ncomp
        ren = {v: '%s_%s' % (acc, v) for v in bound}

        class R(ast.NodeTransformer):
            def visit_Name(self, node):
                if node.id in ren:
                    return ast.copy_location(ast.Name(id=ren[node.id], ctx=node.ctx), node)
                return node
        import copy as _copy
        body = [ast.Expr(value=ast.Call(func=ast.Attribute(value=ast.Name(id=acc, ctx=ast.Load()), attr='append', ctx=ast.Load()),
                                        args=[R().visit(_copy.deepcopy(n.elt))], keywords=[]))]
        for k_ in range(len(n.generators) - 1, -1, -1):
            g = n.generators[k_]
            for c in reversed(g.ifs):
                body = [ast.If(test=R().visit(_copy.deepcopy(c)), body=body, orelse=[])]
            it_ = _copy.deepcopy(g.iter) if k_ == 0 else R().visit(_copy.deepcopy(g.iter))
            body = [ast.For(target=R().visit(_copy.deepcopy(g.target)), iter=it_, body=body, orelse=[], type_comment=None)]
        stmts = [ast.Assign(targets=[ast.Name(id=acc, ctx=ast.Store())], value=ast.List(elts=[], ctx=ast.Load()))] + body
        for st in stmts:
            ast.copy_location(st, n)
            ast.fix_missing_locations(st)
        saved = (self.inplace_updated, self.fresh_names)
        self.inplace_updated = set(self.inplace_updated) | {acc}
        self.fresh_names = set(self.fresh_names) | {acc}
        eff = self.cur_effects
        try:
            self.exec_block(stmts, env, eff)
        finally:
            self.inplace_updated, self.fresh_names = saved
            self.cur_effects = eff
        res = env.pop(acc)
        for v in ren.values():
            env.pop(v, None)
        return res

    def ev_ListComp(self, n, env):
        r0 = self._comp_as_loop(n, env)
        if r0 is not None:
            return r0
        r = self.comp(n, env, 'list', lambda e: self.ev(n.elt, e))
        return self._comp_writes(n, env, self._comp_result(r, lambda items: ('list', tuple(items))))

    def ev_GeneratorExp(self, n, env):
        r0 = self._comp_as_loop(n, env)
        if r0 is not None:
            return r0
        r = self.comp(n, env, 'list', lambda e: self.ev(n.elt, e))
        return self._comp_writes(n, env, self._comp_result(r, lambda items: ('list', tuple(items))))

    def ev_SetComp(self, n, env):
        r = self.comp(n, env, 'set', lambda e: self.ev(n.elt, e))
        return self._comp_writes(n, env, self._comp_result(r, lambda items: ('set', tuple(sorted(set(items), key=skey)))))

    def ev_DictComp(self, n, env):
        r = self.comp(n, env, 'dict', lambda e: ('tuple', (self.ev(n.key, e), self.ev(n.value, e))))
        return self._comp_result(r, lambda items: ('dict', tuple((kv[1][0], kv[1][1]) for kv in items)))

    def ev_Yield(self, n, env):
        v = NONE if n.value is None else self.ev(n.value, env)
        self.cur_effects.append(('yield', v, self.roots_state(env)))
        return ('sent',)

    def ev_YieldFrom(self, n, env):
        self.cur_effects.append(('yieldfrom', self.ev(n.value, env)))
        return ('sent',)

    def ev_NamedExpr(self, n, env):
        v = self.ev(n.value, env)
        env[n.target.id] = v
        return v

    # -- calls ----------------------------------------------------------------
    def ev_Call(self, n, env):
        # mutator methods on places
        if isinstance(n.func, ast.Attribute) and n.func.attr in MUTATORS and self.is_place(n.func.value) \
                and self._self_call_writes(n.func) is None \
                and not (isinstance(n.func.value, ast.Name) and n.func.value.id not in self.aliases
                         and self.ev(n.func.value, env)[0] in ('g', 'b')):      # operator.add(..) is not a set being mutated
            args = [self.ev(a, env) for a in n.args]
            if not n.keywords and not any(a[0] == 'star' for a in args):
                r = self.mutate(n.func.value, n.func.attr, args, env)
                if r is not None:
                    return r
        fnode = n.func
        if isinstance(fnode, ast.Name) and fnode.id in self.aliases and isinstance(self.aliases[fnode.id][1], ast.Attribute):
            fnode = self.aliases[fnode.id][1]        # m = self.method ; m(x)  is  self.method(x)
        f = self.ev(fnode, env)
        if isinstance(fnode, ast.Attribute) and f[0] == 'attr' and f[2] == fnode.attr:
            # a method is called on the object as it is NOW: attribute / item stores made so far stay with the receiver
            recv = self.ev(fnode.value, env)
            if recv != f[1] and recv[0] in ('obj', 'upd', 'mut'):
                f = ('attr', recv, fnode.attr)
        args = tuple(self.ev(a, env) for a in n.args)
        kw = []
        for k in n.keywords:
            if k.arg is None:
                kw.append(('kw', '**', self.ev(k.value, env)))
            else:
                kw.append(('kw', k.arg, self.ev(k.value, env)))
        kw = tuple(sorted(kw, key=lambda x: x[1]))
        if isinstance(fnode, ast.Attribute) and f[0] == 'attr' and f[2] == fnode.attr and self.is_place(fnode.value):
            # the arguments were evaluated after the receiver expression, but the method runs on the object as the arguments left it
            f2 = self.ev(fnode, env)
            if f2[0] == 'attr' and f2[2] == fnode.attr:
                f = f2
                recv = self.ev(fnode.value, env)
                if recv != f[1] and recv[0] in ('obj', 'upd', 'mut'):
                    f = ('attr', recv, fnode.attr)
        res = self.call(f, args, kw, env, n)
        pur = self.purity
        if pur is not None and res[0] == 'call' and not self.no_mark:
            # a call that may change its receiver / an argument stays in sequence: the place now holds mut(name, old, args),
            # so that what is read or called afterwards is a different object term (see sa/purity.py)
            g_ = res[1]
            cw_ = self._self_call_writes(fnode)
            if cw_ is not None:
                # self.m(..) inside a method of a known class: the class's own definition decides what is written
                if cw_ and g_[0] == 'attr' and g_[2] == fnode.attr:
                    cur_ = self.ev(fnode.value, env)
                    qn_ = '%s:%s.%s' % (self.self_class[0], self.self_class[1], fnode.attr)
                    self.store(fnode.value, ('mut', qn_, cur_, self._args_sans(cur_, tuple(args) + tuple(kw))), env, True)
            elif isinstance(fnode, ast.Attribute) and g_[0] == 'attr' and g_[2] == fnode.attr and self.is_place(fnode.value) \
                    and pur.is_writing(fnode.attr) and not self._is_module_name(fnode.value, env):
                cur_ = self.ev(fnode.value, env)
                self.store(fnode.value, ('mut', fnode.attr, cur_, self._args_sans(cur_, tuple(args) + tuple(kw))), env, True)
            if isinstance(fnode, ast.Name) and fnode.id in self.local_writers:
                for v_ in self.local_writers[fnode.id]:
                    if v_ in env:
                        nm_ = ast.Name(id=v_, ctx=ast.Load())
                        cur_ = self.ev(nm_, env)
                        self.store(nm_, ('mut', 'closure:' + fnode.id, cur_, self._args_sans(cur_, tuple(args) + tuple(kw))), env, True)
            for a_ in n.args:
                if isinstance(a_, ast.Name) and a_.id in env and self._is_iterator(env[a_.id]) and g_ != ('b', 'next'):
                    self.store(a_, ('mut', 'consumed', env[a_.id], ()), env, True)      # list(g), sum(g), f(g): g is used up
            if g_ == ('b', 'next') and n.args and self.is_place(n.args[0]):
                cur_ = self.ev(n.args[0], env)
                self.store(n.args[0], ('mut', 'next', cur_, ()), env, True)
            name_ = fnode.attr if isinstance(fnode, ast.Attribute) else (fnode.id if isinstance(fnode, ast.Name) else None)
            if name_ is not None and g_[0] in ('attr', 'g'):
                for i_ in pur.params_written(name_):
                    if i_ >= len(n.args) and getattr(self, 'sig_of', None) is not None and g_[0] == 'g':
                        # the written parameter is passed by keyword: f(l, s, r=r)
                        sg_ = self.sig_of(name_)
                        kws_ = [k_ for k_ in n.keywords if sg_ and i_ < len(sg_) and k_.arg == sg_[i_]]
                        if kws_ and self.is_place(kws_[0].value):
                            cur_ = self.ev(kws_[0].value, env)
                            if not is_c(cur_) and kind_of(cur_) != 'num':
                                full_ = tuple(args) + tuple(k_[2] for k_ in kw)
                                rest_ = tuple((('recv',) if x_ == cur_ else x_) for x_ in full_)
                                self.store(kws_[0].value, ('mut', 'arg%d:%s' % (i_, name_), cur_, self._args_sans(cur_, rest_)), env, True)
                        continue
                    if i_ < len(n.args) and self.is_place(n.args[i_]) and not isinstance(n.args[i_], ast.Starred):
                        cur_ = self.ev(n.args[i_], env)
                        if not is_c(cur_) and kind_of(cur_) != 'num':
                            rest_ = tuple(args[:i_]) + (('recv',),) + tuple(args[i_ + 1:]) + tuple(kw)
                            self.store(n.args[i_], ('mut', 'arg%d:%s' % (i_, name_), cur_, self._args_sans(cur_, rest_)), env, True)
        return res

    def branch_depth_loops(self):
        return False

    def _self_call_writes(self, fnode):
        """for `self.m(..)` in a method of a known class: the attributes the class's m may store (set), else None"""
        if self.purity is None or self.self_class is None or not isinstance(fnode, ast.Attribute) \
                or not isinstance(fnode.value, ast.Name) or fnode.value.id != self.self_name or fnode.value.id in self.aliases \
                or self.bind_count.get(fnode.value.id, 0) > 1:
            return None
        return self.purity.class_writes(self.self_class[0], self.self_class[1], fnode.attr)

    def _args_sans(self, cur, args):
        """the arguments recorded with a writing call, with the written object itself abbreviated (keeps the record linear in
        the number of calls: f(state, state.x) repeated n times would otherwise nest the whole history twice per call)"""
        if cur[0] in ('arg', 'c', 'g', 'b', 'phi', 'it'):
            return args
        if not any(x is cur or x == cur for a in args for x in walk(a)):
            return args
        return substitute(args, {cur: ('recv',)}, self.opts)

    def _used_once_after(self, name, stmt):
        """the name bound by `stmt` is read at most once afterwards, and not inside a loop that starts after the binding:
        a lazy iterator with a single consumer is the same thing as writing it at the point of use"""
        f = self.cur_fdef
        end = (getattr(stmt, 'end_lineno', None), getattr(stmt, 'end_col_offset', None))
        if f is None or end[0] is None:
            return False
        uses = []
        stores_after = 0

        def visit(n, loops):
            nonlocal stores_after
            for c in ast.iter_child_nodes(n):
                if isinstance(c, (ast.FunctionDef, ast.Lambda, ast.ClassDef)):
                    if any(isinstance(x, ast.Name) and x.id == name for x in ast.walk(c)):
                        uses.append((c, ['closure']))
                    continue
                if isinstance(c, ast.Name) and c.id == name:
                    pos = (getattr(c, 'lineno', None), getattr(c, 'col_offset', None))
                    if pos[0] is None:
                        uses.append((c, ['?']))
                    elif pos >= end:
                        if isinstance(c.ctx, ast.Load):
                            uses.append((c, list(loops)))
                        else:
                            stores_after += 1
                inner = loops
                if isinstance(c, (ast.For, ast.While, ast.ListComp, ast.SetComp, ast.DictComp, ast.GeneratorExp)):
                    start = (getattr(c, 'lineno', 0), getattr(c, 'col_offset', 0))
                    # the iterable of a for loop / first generator is evaluated once, the rest on every iteration
                    inner = loops + [c] if start >= end else loops
                visit(c, inner)
        visit(f, [])
        if len(uses) > 1:
            # a top-level statement `name = consumer(name)` binds the name anew: what follows it reads the new binding
            for top in f.body:
                if isinstance(top, ast.Assign) and len(top.targets) == 1 and isinstance(top.targets[0], ast.Name) \
                        and top.targets[0].id == name and (top.lineno, top.col_offset) >= end:
                    tend = (top.end_lineno, top.end_col_offset)
                    inside = [x for x in uses if any(y is x[0] for y in ast.walk(top.value))]
                    if len(inside) == 1 and all(x in inside or (type(x[1]) is list and 'closure' not in x[1] and '?' not in x[1]
                                                                and (x[0].lineno, x[0].col_offset) >= tend) for x in uses):
                        uses = inside
                    break
        if len(uses) > 1:
            return False
        if uses and hasattr(uses[0][0], 'lineno'):
            # nothing that could change what the iterator reads lies between the binding and the use (the iterator is lazy)
            u0 = uses[0][0]
            upos = (u0.lineno, u0.col_offset)
            for n_ in ast.walk(f):
                if isinstance(n_, (ast.Call, ast.AugAssign, ast.Delete, ast.Yield, ast.YieldFrom)) \
                        or (isinstance(n_, (ast.Attribute, ast.Subscript)) and isinstance(n_.ctx, (ast.Store, ast.Del))):
                    p_ = (n_.lineno, n_.col_offset)
                    if end <= p_ < upos and not any(x is u0 for x in ast.walk(n_)):
                        return False
        CONSUMERS = {'list', 'tuple', 'sorted', 'sum', 'max', 'min', 'any', 'all', 'set', 'frozenset', 'bytes', 'bytearray', 'dict',
                     'enumerate', 'zip', 'map', 'filter', 'reversed', 'reduce', 'join', 'extend', 'next'}
        for u, loops in uses:
            # the single use must consume the iterator on the spot: the iterable of a loop, or an argument of a consuming builtin
            ok_ = False
            for p_ in ast.walk(f):
                if isinstance(p_, (ast.For, ast.comprehension)) and p_.iter is u:
                    ok_ = True
                    if isinstance(p_, ast.For) and hasattr(stmt, 'value') and self._reads_written(stmt.value, p_.body):
                        return False          # the loop body changes what the lazy iterator reads
                elif isinstance(p_, ast.Call) and any(a_ is u for a_ in p_.args):
                    nm_ = p_.func.id if isinstance(p_.func, ast.Name) else (p_.func.attr if isinstance(p_.func, ast.Attribute) else None)
                    ok_ = ok_ or (nm_ in CONSUMERS and nm_ != 'next')
                elif isinstance(p_, ast.Assign) and p_.value is u and isinstance(p_.targets[0], (ast.Tuple, ast.List)):
                    ok_ = True            # a, b = it
                elif isinstance(p_, ast.YieldFrom) and p_.value is u:
                    ok_ = True
            if not ok_:
                return False
        for u, loops in uses:
            for lp in loops:
                if lp in ('closure', '?'):
                    return False
                first_iter = lp.iter if isinstance(lp, ast.For) else (lp.generators[0].iter if hasattr(lp, 'generators') else None)
                if first_iter is not None and any(x is u for x in ast.walk(first_iter)):
                    continue          # `for x in name:` - evaluated once
                return False
        # the enclosing loops of the binding itself: a binding inside a loop is made afresh on every iteration
        return True

    @staticmethod
    def _is_iterator(t):
        while t[0] == 'mut' and t[1] in ('next', 'consumed'):
            t = t[2]
        return t[0] == 'genexp' or (t[0] == 'call' and t[1] == ('b', 'iter'))

    def _is_module_name(self, n, env):
        """struct.pack / operator.xor / self.__class__: the `receiver` is a module or class, not an object with state"""
        if isinstance(n, ast.Name) and n.id not in self.aliases:
            return self.ev(n, env)[0] in ('g', 'b')
        return False

    def is_place(self, n):
        if isinstance(n, ast.Name):
            return True
        if isinstance(n, (ast.Attribute, ast.Subscript)):
            return self.is_place(n.value)
        return False

    def mutate(self, place, meth, args, env):
        if meth == 'extend' and len(args) == 1 and args[0][0] in ('list', 'tuple') and 1 <= len(args[0][1]) <= 8 \
                and not any(x[0] == 'star' for x in args[0][1]):
            for x in args[0][1]:            # l.extend((a, b)) is l.append(a); l.append(b)
                self.mutate(place, 'append', [x], env)
            return NONE
        cur = self.ev(place, env)
        new = None
        res = NONE
        if cur[0] == 'list':
            items = list(cur[1])
            try:
                if meth == 'append' and len(args) == 1:
                    new = ('list', tuple(items + [args[0]]))
                elif meth == 'extend' and len(args) == 1:
                    it = iter_items(args[0])
                    if it is not None:
                        new = ('list', tuple(items + it))
                elif meth == 'reverse' and not args:
                    new = ('list', tuple(reversed(items)))
                elif meth == 'pop' and len(args) <= 1 and all(is_int(a) for a in args) and items:
                    i = args[0][1] if args else -1
                    res = items.pop(i)
                    new = ('list', tuple(items))
                elif meth == 'insert' and len(args) == 2 and is_int(args[0]):
                    items.insert(args[0][1], args[1])
                    new = ('list', tuple(items))
                elif meth == 'remove' and len(args) == 1 and concrete(cur) and concrete(args[0]):
                    items.remove(args[0])
                    new = ('list', tuple(items))
                elif meth == 'clear' and not args:
                    new = ('list', ())
            except (IndexError, ValueError):
                new = None
        if new is None and meth == 'append' and len(args) == 1 and owned_fresh(cur) and cur[0] != 'mut':
            new = mk_bin('+', cur, ('list', (args[0],)), self.opts)      # l.append(x) on a list the function created is l = l + [x]
        if new is None and meth == 'reverse' and not args and owned_fresh(cur):
            new = get_idx(cur, ('slice', NONE, NONE, C(-1)))        # l.reverse()  is  l = l[::-1]  on a list the function created
        if new is None:
            new = ('mut', meth, cur, tuple(args))
            if meth in ('remove', 'add', 'discard'):
                # consecutive add/remove/discard on a *set* commute: canonical order
                chain, base = [tuple(args)], cur
                while base[0] == 'mut' and base[1] == meth:
                    chain.append(base[3])
                    base = base[2]
                root = base
                while root[0] in ('mut', 'hoist'):
                    root = root[2] if root[0] == 'mut' else root[1]
                if len(chain) > 1 and (root[0] == 'set' or (root[0] == 'call' and root[1] == ('b', 'set'))):
                    chain.sort(key=skey)
                    new = base
                    for a_ in chain:
                        new = ('mut', meth, new, a_)
            res = ('mutres', meth, cur, tuple(args)) if meth in ('pop', 'popitem', 'setdefault') else NONE
        self.store(place, new, env, True)
        return res

    def call(self, f, args, kw, env, node=None):
        args = tuple(args)
        if self.module_mode and f[0] == 'g' and not kw and getattr(self, 'module_funcs', None) and f[1] in self.module_funcs \
                and args and all(concrete(a) for a in args):
            # TABLE = helper(CONSTANT) at module level: the helper applied to constants is folded like any other table formula
            sub = PE(self.resolve_global, self.global_values, self.unroll, self.opts, self.inline, self.call_hook)
            sub.lam_depth = self.lam_depth + 10
            sub.closures = self.closures + [env]
            sub.purity = self.purity
            try:
                sm = sub.run_function(self.module_funcs[f[1]], args=list(args))
                r = effects_value(sm.effects)
            except (Unsupported, RecursionError, StaticRaise):
                r = None
            if r is not None and concrete(r):
                return r
        if f[0] == 'lfn' and f[1] in self.local_fdefs and not any(a[0] == 'star' for a in args):
            # a nested function that is a pure expression of its arguments (checked: it shares no changing state with the
            # enclosing function) is written out at the call, like a module-level helper
            sub = PE(self.resolve_global, self.global_values, self.unroll, self.opts, self.inline, self.call_hook)
            sub.lam_depth = self.lam_depth + 10
            sub.closures = self.closures + [env]
            sub.purity = self.purity
            fa_ = self.local_fdefs[f[1]].args
            pnames_ = [x.arg for x in fa_.posonlyargs + fa_.args]
            full_ = list(args)
            kwd_ = {k[1]: k[2] for k in kw}
            ok_ = not fa_.vararg and not fa_.kwarg and not fa_.kwonlyargs and len(full_) <= len(pnames_) and all(k_ in pnames_[len(full_):] for k_ in kwd_)
            if ok_:
                # every parameter gets a value here: positional, keyword, or the default (evaluated in the defining scope)
                dflt_ = dict(zip(pnames_[len(pnames_) - len(fa_.defaults):], fa_.defaults))
                for nm_ in pnames_[len(full_):]:
                    if nm_ in kwd_:
                        full_.append(kwd_[nm_])
                    elif nm_ in dflt_:
                        try:
                            full_.append(self.ev(dflt_[nm_], env))
                        except Unsupported:
                            ok_ = False
                            break
                    else:
                        ok_ = False
                        break
            r = None
            if ok_:
                try:
                    sm = sub.run_function(self.local_fdefs[f[1]], args=full_)
                    r = effects_value(sm.effects)
                except (Unsupported, RecursionError):
                    r = None
            if r is not None:
                return r
        if kw and f[0] == 'g' and getattr(self, 'sig_of', None) is not None and not any(k[1] == '**' for k in kw) \
                and not any(a[0] == 'star' for a in args):
            # Poly(ks, size=8) is Poly(ks, 8): keyword arguments that fill the next positional parameters, in order
            names = self.sig_of(f[1])
            if names:
                kwd = {k[1]: k[2] for k in kw}
                args2 = list(args)
                while len(args2) < len(names) and names[len(args2)] in kwd:
                    args2.append(kwd.pop(names[len(args2)]))
                if len(args2) != len(args):
                    args = tuple(args2)
                    kw = tuple(k for k in kw if k[1] in kwd)
        if f[0] == 'g' and getattr(self, 'sig_of', None) is not None and not any(a[0] == 'star' for a in args) \
                and not any(k[1] == '**' for k in kw):
            # pack(h, '<L') is pack(h) when '<L' is the default: arguments equal to the callee's constant default are dropped
            names = self.sig_of(f[1])
            dfl = getattr(names, 'defaults', None)
            if names and dfl:
                kw2 = tuple(k for k in kw if not (k[1] in names and dfl[names.index(k[1])] is not None and dfl[names.index(k[1])] == k[2]))
                args2 = list(args)
                if not kw2:
                    while args2 and len(args2) <= len(names) and dfl[len(args2) - 1] is not None and dfl[len(args2) - 1] == args2[-1]:
                        args2.pop()
                if len(args2) != len(args) or len(kw2) != len(kw):
                    args, kw = tuple(args2), kw2
        if f[0] == 'attr' and f[2] == 'get' and len(args) == 2 and args[1] == NONE and not kw:
            args = args[:1]                                   # d.get(k, None) is d.get(k)
        if f[0] == 'b' and f[1] == 'getattr' and len(args) == 2 and not kw and is_c(args[1]) and isinstance(args[1][1], str):
            return get_attr(args[0], args[1][1])              # getattr(o, 'name') is o.name
        if f[0] == 'b' and f[1] == 'dict' and not args and kw:
            return ('dict', tuple(sorted(((C(k[1]), k[2]) for k in kw), key=lambda kv: skey(kv[0]))))
        if f[0] == 'b' and f[1] == 'bytes' and len(args) == 1 and not kw and is_bytes(args[0]):
            return args[0]                                    # bytes(b) of a bytes value is b
        if f[0] == 'g' and getattr(self, 'ext_of', None) is not None and len(args) == 2 and not kw:
            e_ = self.ext_of(f[1])
            if e_ is not None and e_[0] == 'operator' and e_[1] in ('xor', 'and_', 'or_', 'add', 'sub', 'mul', 'lshift', 'rshift', 'floordiv', 'mod'):
                f = ('attr', ('g', 'operator'), e_[1])          # from operator import xor as _xor
        if f[0] == 'attr' and f[1] in (('g', 'operator'), ('b', 'operator')) and len(args) == 2 and not kw \
                and f[2] in ('xor', 'and_', 'or_', 'add', 'sub', 'mul', 'lshift', 'rshift', 'floordiv', 'mod'):
            op_ = {'xor': '^', 'and_': '&', 'or_': '|', 'add': '+', 'sub': '-', 'mul': '*', 'lshift': '<<', 'rshift': '>>',
                   'floordiv': '//', 'mod': '%'}[f[2]]
            return mk_bin(op_, args[0], args[1], self.opts)          # operator.xor(a, b) is a ^ b
        if f[0] == 'attr' and f[2] == 'join' and is_c(f[1]) and f[1][1] in (b'', '') and len(args) == 1 and not kw \
                and args[0][0] == '+' and all(x[0] in ('list', 'tuple', 'ite') for x in args[0][1]):
            # an empty separator joins a concatenation piecewise
            out = None
            for x in args[0][1]:
                px = self.call(f, (x,), (), env)
                out = px if out is None else mk_bin('+', out, px, self.opts)
            return out
        if f[0] == 'attr' and f[2] == 'join' and is_c(f[1]) and f[1][1] in (b'', '') and len(args) == 1 and not kw \
                and args[0][0] == 'ite' and args[0][2][0] in ('list', 'tuple') and args[0][3][0] in ('list', 'tuple'):
            return mk_ite(args[0][1], self.call(f, (args[0][2],), (), env), self.call(f, (args[0][3],), (), env))
        if f[0] == 'attr' and f[2] == 'join' and is_c(f[1]) and f[1][1] in (b'', '') and len(args) == 1 and not kw \
                and args[0][0] in ('list', 'tuple') and 1 <= len(args[0][1]) <= 16:
            if all(is_c(x_) for x_ in args[0][1]):
                try:
                    return C(f[1][1].join(x_[1] for x_ in args[0][1]))
                except Exception:
                    pass
            acc = args[0][1][0]
            for x_ in args[0][1][1:]:
                acc = ('+', (acc[1] + (x_,)) if acc[0] == '+' and kind_of(acc) != 'num' else (acc, x_))
            return acc if len(args[0][1]) > 1 else args[0][1][0]      # b''.join([a, b, c]) is a + b + c
        if f[0] == 'b' and f[1] in ('any', 'all', 'sum', 'sorted', 'max', 'min', 'set', 'tuple', 'list', 'frozenset') and len(args) == 1 and not kw \
                and args[0][0] == 'call' and args[0][1] == ('b', 'list') and len(args[0][2]) == 1 and not args[0][3]:
            args = (args[0][2][0],)            # any(list(S)) is any(S): the consumer only iterates
        if f[0] == 'b' and f[1] == 'all' and len(args) == 1 and not kw and args[0][0] == 'comp' and args[0][1] == 'list' \
                and args[0][3][0] == 'not' and len(args[0][4]) == 1 and not args[0][4][0][1]:
            # all(not c for c in S)  is  not any(S)
            d_ = args[0][2]
            inner = mk_comp('list', d_, args[0][3][1], args[0][4])
            return mk_not(self.call(('b', 'any'), (inner,), (), env))
        if f[0] == 'b' and f[1] == 'len' and len(args) == 1 and not kw and args[0][0] == 'or' and len(args[0][1]) == 2:
            a_, b_ = args[0][1]
            return mk_ite(a_, self.call(f, (a_,), (), env), self.call(f, (b_,), (), env))      # len(a or b)
        if f[0] == 'b' and f[1] == 'map' and len(args) == 3 and not kw and args[0][0] in ('lam', 'attr', 'g', 'b'):
            # map(f, A, B) is (f(a, b) for a, b in zip(A, B))
            ci = canon_iter(('call', ('b', 'zip'), tuple(args[1:]), ()), self.opts)
            if ci is not None:
                self.lam_depth += 1
                d_ = self.lam_depth
                try:
                    x_ = ci[1](('bv', d_, 0, 'num'))
                    elt = self.call(shift_binders(args[0], d_, 1), tuple(x_[1]), (), env) if x_[0] == 'tuple' and len(x_[1]) == 2 else None
                finally:
                    self.lam_depth -= 1
                if elt is not None:
                    return mk_comp('list', d_, elt, ((canon_range(ci[0]), ()),))
        if f[0] == 'b' and f[1] == 'map' and len(args) == 2 and not kw and args[0][0] in ('lam', 'attr', 'g', 'b'):
            ci = canon_iter(args[1], self.opts)
            if ci is not None or args[1][0] == 'range':
                self.lam_depth += 1
                d_ = self.lam_depth
                try:
                    if ci is None:
                        it_, x_ = args[1], ('bv', d_, 0, 'num')
                        if not (it_[1] == C(0) and it_[3] == C(1)):
                            cs = canon_seq(it_, self.opts)
                            it_, x_ = canon_range(cs[0]), cs[1](('bv', d_, 0, 'num'))
                    else:
                        it_, x_ = canon_range(ci[0]), ci[1](('bv', d_, 0, 'num'))
                    elt = self.call(shift_binders(args[0], d_, 1), (x_,), (), env)
                finally:
                    self.lam_depth -= 1
                return mk_comp('list', d_, elt, ((it_, ()),))          # map(f, S) is (f(x) for x in S)
        if f[0] == 'b' and f[1] in ('max', 'min') and len(args) == 2 and not kw \
                and kind_of(args[0]) != 'seq' and kind_of(args[1]) != 'seq' and not (is_c(args[0]) and is_c(args[1])) \
                and args[0][0] not in ('comp', 'star') and args[1][0] not in ('comp', 'star'):
            a_, b_ = args
            return mk_ite(mk_cmp('<', a_, b_), b_, a_) if f[1] == 'max' else mk_ite(mk_cmp('<', b_, a_), b_, a_)
        if f[0] == 'b' and f[1] == 'reversed' and len(args) == 1 and not kw and args[0][0] != 'range' \
                and canon_seq(args[0], self.opts) is not None and iter_items(args[0]) is None:
            return get_idx(args[0], REV)                      # reversed(x) of an indexable value is x[::-1]
        if f[0] == 'b' and f[1] == 'int' and len(args) == 1 and not kw and args[0][0] in ('cmp', 'not', 'and', 'or'):
            return mk_ite(args[0], C(1), C(0))                # int(condition)
        if f[0] == 'b' and f[1] == 'divmod' and len(args) == 2 and not kw and is_int(args[1]) and type(args[1][1]) is int \
                and kind_of(args[0]) != 'seq':
            return ('tuple', (mk_bin('//', args[0], args[1], self.opts), mk_bin('%', args[0], args[1], self.opts)))
        if f[0] == 'b' and f[1] == 'divmod' and len(args) == 2 and not kw and is_pyint(args[0]) and is_pyint(args[1]):
            return ('tuple', (mk_bin('//', args[0], args[1], self.opts), mk_bin('%', args[0], args[1], self.opts)))
        if f[0] == 'g' and not kw and args and all(is_c(a_) and isinstance(a_[1], (int, float)) for a_ in args) \
                and getattr(self, 'ext_of', None) is not None:
            ext = self.ext_of(f[1])
            if ext is not None and ext[0] == 'math' and ext[1] in ('sin', 'cos', 'sqrt', 'floor', 'ceil', 'log', 'fabs', 'pow', 'exp'):
                import math as _math
                try:
                    return from_py(getattr(_math, ext[1])(*[a_[1] for a_ in args]))     # a pure library function of constants
                except Exception:
                    pass
        if f[0] in ('g', 'b') and f[1] == 'reduce' and len(args) in (2, 3) and not kw and args[0][0] in ('g', 'attr'):
            # reduce(operator.xor, S) / reduce(_floordiv, S): the operator function is lambda a, b: a op b
            nm_ = None
            if args[0][0] == 'attr' and args[0][1] in (('g', 'operator'), ('b', 'operator')):
                nm_ = args[0][2]
            elif args[0][0] == 'g' and getattr(self, 'ext_of', None) is not None:
                e_ = self.ext_of(args[0][1])
                nm_ = e_[1] if e_ is not None and e_[0] == 'operator' else None
            ops_ = {'xor': '^', 'and_': '&', 'or_': '|', 'add': '+', 'sub': '-', 'mul': '*', 'lshift': '<<', 'rshift': '>>', 'floordiv': '//', 'mod': '%'}
            if nm_ in ops_:
                self.lam_depth += 1
                d_ = self.lam_depth
                self.lam_depth -= 1
                args = (('lam', 2, d_, mk_bin(ops_[nm_], ('p', d_, 0), ('p', d_, 1), self.opts), ()),) + tuple(args[1:])
        if f[0] in ('g', 'b') and f[1] == 'reduce' and len(args) in (2, 3) and not kw and args[0][0] == 'lam' and args[0][1] == 2:
            r = self.reduce_as_loop(args[0], args[1], args[2] if len(args) == 3 else None)
            if r is not None:
                return r
        if self.call_hook is not None:
            r = self.call_hook(self, f, args, kw, env, node)
            if r is not None:
                return r
        if f[0] == 'lam' and not kw:
            r = self.apply_lambda(f, args)
            if r is not None:
                return r
        if f[0] == 'b' and not kw:
            r = self.fold_builtin(f[1], args)
            if r is not None:
                return r
        if f[0] == 'attr' and not kw:
            r = self.fold_method(f[1], f[2], args)
            if r is not None:
                return r
        if f[0] in ('g', 'lfnref') and f[1] in self.inline:
            r = self.inline_call(self.inline[f[1]], args, kw, env)
            if r is not None:
                return r
        return ('call', f, args, kw)

    def reduce_as_loop(self, lam, S, init):
        """reduce(lambda acc, x: e, S, init)  is the loop  acc = init; for x in S: acc = e"""
        ci = canon_iter(S, self.opts)
        if S[0] == 'range' and ci is None:
            ci = canon_seq(S, self.opts)
        if init is None:
            if ci is None:
                return None
            n, g = ci
            init = g(C(0))
            n = mk_bin('+', n, C(-1), self.opts)
            g0 = g
            g = lambda k: g0(mk_bin('+', k, C(1), self.opts))
            ci = (n, g)
        self.nloops += 1
        L = self.nloops
        suf = ('num',) if kind_of(init) == 'num' else ()
        phi = ('phi', L, 0) + suf
        if ci is not None:
            n, g = ci
            it = canon_range(n)
            x = g(('it', L, 'num'))
        else:
            it = S
            x = ('it', L)
        nxt = self.apply_lambda(lam, [phi, x])
        if nxt is None:
            self.nloops -= 1
            return None
        self.cur_effects.append(('for', L, it, (init,), (nxt,), (), ()))
        return ('after', L, 0) + suf

    def inline_call(self, fdef, args, kw, env):
        if isinstance(fdef, tuple) and fdef[0] == 'lam':
            return self.apply_lambda(fdef, args) if not kw else None
        sub = PE(self.resolve_global, self.global_values, self.unroll, self.opts, self.inline, self.call_hook)
        sub.lam_depth = self.lam_depth + 10
        try:
            sm = sub.run_function(fdef, args=list(args), kwargs={k[1]: k[2] for k in kw})
        except Unsupported:
            return None
        return effects_value(sm.effects)

    def fold_builtin(self, name, args):
        try:
            if name == 'len' and len(args) == 1:
                a = args[0]
                if a[0] in ('list', 'tuple', 'set', 'dict'):
                    return C(len(a[1]))
                if a[0] == 'c' and isinstance(a[1], (bytes, str)):
                    return C(len(a[1]))
                if a[0] == 'range':
                    try:
                        return C(len(to_py(a)))
                    except OverflowError:
                        return None
                return None
            if name == 'range' and 1 <= len(args) <= 3:
                if len(args) == 1:
                    return ('range', C(0), args[0], C(1))
                if len(args) == 2:
                    return ('range', args[0], args[1], C(1))
                return ('range', args[0], args[1], args[2])
            if name == 'list' and len(args) == 1 and args[0][0] == 'comp' and args[0][1] == 'list':
                return args[0]
            if name in ('list', 'tuple') and len(args) == 1:
                it = iter_items(args[0])
                if it is not None:
                    if name == 'tuple' and it and all(concrete(x) for x in it):
                        return ('list', tuple(it))        # same canonical form as a constant tuple literal
                    return (name, tuple(it))
                if args[0][0] == 'enumerate' or args[0][0] == 'zip':
                    return None
                return None
            if name in ('list', 'tuple') and not args:
                return (name, ())
            if name == 'dict' and not args:
                return ('dict', ())
            if name == 'reversed' and len(args) == 1:
                it = iter_items(args[0])
                if it is not None:
                    return ('list', tuple(reversed(it)))
                return None
            if name == 'enumerate' and len(args) == 1:
                it = iter_items(args[0])
                if it is not None:
                    return ('list', tuple(('tuple', (C(i), x)) for i, x in enumerate(it)))
                return None
            if name == 'zip' and args:
                its = [iter_items(a) for a in args]
                if all(i is not None for i in its):
                    return ('list', tuple((('list', tuple(x)) if all(concrete(y) for y in x) else ('tuple', tuple(x))) for x in zip(*its)))   # constant rows: the table form
                return None
            if name == 'sum' and len(args) in (1, 2):
                it = iter_items(args[0])
                if it is not None and all(is_c(x) for x in it) and (len(args) == 1 or is_c(args[1])):
                    return C(sum((x[1] for x in it), *( [args[1][1]] if len(args) == 2 else [])))
                return None
            if name == 'isinstance':
                return None
            if name in ('int', 'abs', 'max', 'min', 'divmod', 'ord', 'chr', 'bool', 'str', 'bytes', 'sorted',
                        'float', 'hex', 'bin', 'round', 'pow', 'any', 'all', 'bytearray', 'set'):
                pa = [to_py(a) for a in args]
                if name == 'bytes' and pa and isinstance(pa[0], int) and pa[0] > MAX_FOLD_LEN:
                    return None
                fn = {'int': int, 'abs': abs, 'max': max, 'min': min, 'divmod': divmod, 'ord': ord, 'chr': chr,
                      'bool': bool, 'str': str, 'bytes': bytes, 'sorted': sorted, 'float': float, 'hex': hex,
                      'bin': bin, 'round': round, 'pow': pow, 'any': any, 'all': all, 'bytearray': bytearray,
                      'set': set}[name]
                return from_py(fn(*pa))
        except NotConcrete:
            return None
        except Exception:
            return None
        return None

    def fold_method(self, base, meth, args):
        try:
            if base == ('b', 'bytes') and meth == 'fromhex' and len(args) == 1 and is_c(args[0]) and isinstance(args[0][1], str):
                return C(bytes.fromhex(args[0][1]))
            if base == ('b', 'int') and meth == 'from_bytes' and len(args) == 2 and all(is_c(a) for a in args) \
                    and isinstance(args[0][1], bytes) and args[1][1] in ('little', 'big'):
                return C(int.from_bytes(args[0][1], args[1][1]))
            if base in (('g', 'struct'), ('b', 'struct')) and meth == 'unpack' and len(args) == 2 and all(is_c(a) for a in args) \
                    and isinstance(args[0][1], str) and isinstance(args[1][1], bytes):
                import struct as _struct
                return ('tuple', tuple(C(x) for x in _struct.unpack(args[0][1], args[1][1])))
            if is_int(base) and meth == 'to_bytes' and len(args) == 2 and is_int(args[0]) and is_c(args[1]) and args[1][1] in ('little', 'big'):
                return C(base[1].to_bytes(args[0][1], args[1][1]))
            if is_c(base) and isinstance(base[1], (str, bytes)):
                if meth in ('split', 'join', 'ljust', 'rjust', 'zfill', 'replace', 'rfind', 'find', 'strip',
                            'upper', 'lower', 'encode', 'decode', 'index', 'count', 'startswith', 'endswith',
                            'hex', 'center', 'lstrip', 'rstrip', 'format'):
                    pa = [to_py(a) for a in args]
                    return from_py(getattr(base[1], meth)(*pa))
            if base[0] in ('list', 'tuple') and meth in ('index', 'count') and len(args) == 1:
                if concrete(base) and concrete(args[0]):
                    return from_py(getattr(to_py(base), meth)(to_py(args[0])))
            if base[0] == 'dict' and meth in ('get',) and args and concrete(args[0]):
                if all(concrete(k) for k, v in base[1]):
                    for k, v in base[1]:
                        if k == args[0]:
                            return v
                    return args[1] if len(args) > 1 else NONE
            if base[0] == 'dict' and meth in ('items', 'keys', 'values') and not args:
                if meth == 'items':
                    return ('list', tuple(('tuple', (k, v)) for k, v in base[1]))
                if meth == 'keys':
                    return ('list', tuple(k for k, v in base[1]))
                return ('list', tuple(v for k, v in base[1]))
            if is_int(base) and meth == 'bit_length' and not args:
                return C(base[1].bit_length())
        except NotConcrete:
            return None
        except Exception:
            return None
        return None

    # -- statements -------------------------------------------------------------
    def bind_target(self, tgt, val, env):
        if isinstance(tgt, ast.Name):
            self.aliases.pop(tgt.id, None)
            if self.aliases:
                self._drop_aliases_under((tgt.id,), env)      # names viewing the object this name held keep that object
            env[tgt.id] = val
        elif isinstance(tgt, (ast.Tuple, ast.List)):
            n = len(tgt.elts)
            if val[0] not in ('tuple', 'list') and len(self.partial_ops) < 400:
                self.partial_ops.append((val, ('unpack', C(n))))
            stars = [i for i, e in enumerate(tgt.elts) if isinstance(e, ast.Starred)]
            if stars:
                # a, *b, c = x   is   a = x[0]; b = list(x[1:-1]); c = x[-1]
                if len(stars) > 1:
                    raise Unsupported('starred target', tgt)
                k = stars[0]
                after = n - k - 1
                if val[0] in ('tuple', 'list') and len(val[1]) >= n - 1 and not any(x[0] == 'star' for x in val[1]):
                    its = list(val[1])
                    for i, e in enumerate(tgt.elts[:k]):
                        self.bind_target(e, its[i], env)
                    self.bind_target(tgt.elts[k].value, ('list', tuple(its[k:len(its) - after])), env)
                    for i, e in enumerate(tgt.elts[k + 1:]):
                        self.bind_target(e, its[len(its) - after + i], env)
                    return
                for i, e in enumerate(tgt.elts[:k]):
                    self.bind_target(e, get_idx(val, C(i)), env)
                mid = get_idx(val, ('slice', C(k) if k else NONE, C(-after) if after else NONE, NONE))
                self.bind_target(tgt.elts[k].value, ('call', ('b', 'list'), (mid,), ()), env)
                for i, e in enumerate(tgt.elts[k + 1:]):
                    self.bind_target(e, get_idx(val, C(i - after)), env)
                return
            items = None
            if val[0] in ('tuple', 'list') and len(val[1]) == n:
                items = list(val[1])
            for i, e in enumerate(tgt.elts):
                self.bind_target(e, items[i] if items is not None else get_idx(val, C(i)), env)
        else:
            self.store(tgt, val, env)

    def bind_pattern_syms(self, tgt, env, mk, path=()):
        if isinstance(tgt, ast.Name):
            env[tgt.id] = mk(path)
        elif isinstance(tgt, (ast.Tuple, ast.List)):
            for i, e in enumerate(tgt.elts):
                self.bind_pattern_syms(e, env, mk, path + (i,))
        else:
            raise Unsupported('loop target', tgt)

    def store(self, tgt, val, env, update=False):
        if isinstance(tgt, ast.Name):
            al = self.aliases.get(tgt.id)
            if al is not None and update:
                self.store(al[1], val, env, True)       # an in-place update through the view updates the place
                return
            if al is not None:
                del self.aliases[tgt.id]
            if not update and self.aliases:
                self._drop_aliases_under((tgt.id,), env)
            env[tgt.id] = val
        elif isinstance(tgt, ast.Attribute):
            if not update:
                p_ = self._attr_path(tgt)
                if p_ is not None and self.aliases:
                    self._drop_aliases_under(p_, env)
            base = self.ev(tgt.value, env)
            sw_ = None
            if self.purity is not None and not update:
                own_ = self.self_class if (isinstance(tgt.value, ast.Name) and tgt.value.id == self.self_name) else None
                sw_ = self.purity.setter_writes(tgt.attr, own_)
            if sw_ is not None:
                # x.size = v where `size` is a property with a setter: the setter runs (and stores other attributes too)
                newbase = ('mut', 'set:' + tgt.attr, base, (val,))
            else:
                newbase = set_attr(base, tgt.attr, val)
            if self.is_place(tgt.value):
                self.store(tgt.value, newbase, env, True)
            else:
                self.cur_effects.append(('setattr', base, tgt.attr, val))
        elif isinstance(tgt, ast.Subscript):
            base = self.ev(tgt.value, env)
            idx = self.ev(tgt.slice, env)
            self.bounds(base, idx)
            newbase = set_idx(base, idx, val)
            if self.is_place(tgt.value):
                self.store(tgt.value, newbase, env, True)
            else:
                self.cur_effects.append(('setitem', base, idx, val))
        elif isinstance(tgt, (ast.Tuple, ast.List)):
            self.bind_target(tgt, val, env)
        else:
            raise Unsupported('store target ' + type(tgt).__name__, tgt)

    def exec_block(self, stmts, env, effects):
        """Returns True if the block definitely terminates (return/raise/break/continue)."""
        for i, s in enumerate(stmts):
            self.cur_effects = effects
            try:
                t = self.exec_stmt(s, env, effects, stmts[i + 1:])
            except StaticRaise as sr_:
                effects.append(('exit', 'raise', sr_.term, self.roots_state(env)))
                return True
            if t == 'consumed':   # an if-statement took the rest of the block into a branch
                return self._last_term
            if t:
                return True
        return False

    def roots_state(self, env):
        """externally visible mutable roots whose term changed"""
        out = []
        for name, init in self.roots.items():
            cur = env.get(name, init)
            if cur != init and mutates(cur, init):
                out.append(('root', name, cur))
        return tuple(sorted(out, key=lambda x: x[1]))

    def exec_stmt(self, s, env, effects, rest):
        self.cur_effects = effects
        if isinstance(s, ast.Assign):
            v = self.ev(s.value, env)
            lazy_ = isinstance(s.value, ast.GeneratorExp) or (
                isinstance(s.value, ast.Call) and isinstance(s.value.func, ast.Name) and s.value.func.id not in env
                and s.value.func.id in ('map', 'filter', 'zip', 'enumerate', 'reversed', 'iter'))
            if lazy_ and v[0] != 'genexp' and any(isinstance(t_, ast.Name) for t_ in s.targets) \
                    and not all(self._used_once_after(t_.id, s) for t_ in s.targets if isinstance(t_, ast.Name)):
                v = ('genexp', v)        # a NAMED generator can be consumed only once: not the same thing as the list
            for t in s.targets:
                self.cur_effects = effects
                self.bind_target(t, v, env) if isinstance(t, (ast.Name, ast.Tuple, ast.List)) else self.store(t, v, env)
            pairs = []
            if len(s.targets) == 1 and isinstance(s.targets[0], ast.Name):
                pairs = [(s.targets[0], s.value)]
            elif len(s.targets) == 1 and isinstance(s.targets[0], ast.Tuple) and isinstance(s.value, ast.Tuple) \
                    and len(s.targets[0].elts) == len(s.value.elts):
                pairs = [(t_, v_) for t_, v_ in zip(s.targets[0].elts, s.value.elts) if isinstance(t_, ast.Name)]
            # self.a = x  and x is later updated in place: from here on x names the object held by self.a
            if len(s.targets) == 1 and isinstance(s.targets[0], ast.Attribute) and isinstance(s.value, ast.Name) \
                    and s.value.id in self.inplace_updated and s.value.id in env and s.value.id not in self.aliases:
                tp_ = self._attr_path(s.targets[0])
                vt = env.get(s.value.id)
                if tp_ is not None and tp_[0] != s.value.id and tp_[0] not in self.aliases and vt is not None and not is_c(vt) \
                        and vt[0] not in ('lam', 'g', 'b') and kind_of(vt) != 'num' and not self.branch_depth_loops():
                    place_ = ast.Attribute(value=s.targets[0].value, attr=s.targets[0].attr, ctx=ast.Load())
                    ast.copy_location(place_, s.targets[0])
                    ast.fix_missing_locations(place_)
                    self.aliases[s.value.id] = (tp_, place_)
            tnames_ = {t_.id for t_, _ in pairs}
            for t_, v_ in pairs:
                if isinstance(v_, ast.Name):
                    # y = x  and one of the two is later updated in place: both name the same (mutable) object
                    if v_.id == t_.id or v_.id in tnames_ or v_.id not in env or not ({t_.id, v_.id} & self.inplace_updated):
                        continue
                    vt = env.get(t_.id)
                    if vt is None or is_c(vt) or vt[0] in ('lam', 'g', 'b') or kind_of(vt) == 'num':
                        continue
                    self.aliases[t_.id] = self.aliases[v_.id] if v_.id in self.aliases else ((v_.id,), v_)
                    continue
                p_ = self._attr_path(v_)
                if p_ is not None and p_[0] in self.aliases and t_.id in self.inplace_updated and p_[0] != t_.id:
                    # box = S.ival where S is itself a view (S = self.S): a view of self.S.ival
                    q_, place_ = self.aliases[p_[0]]

                    def rebase(n_):
                        if isinstance(n_, ast.Name):
                            return place_
                        return ast.copy_location(ast.Attribute(value=rebase(n_.value), attr=n_.attr, ctx=ast.Load()), n_)
                    v2_ = rebase(v_)
                    ast.fix_missing_locations(v2_)
                    vt = env.get(t_.id)
                    if vt is not None and not is_c(vt) and vt[0] not in ('lam', 'g', 'b'):
                        self.aliases[t_.id] = (tuple(q_) + tuple(p_[1:]), v2_)
                    continue
                if p_ is not None and t_.id in self.inplace_updated and p_[0] != t_.id and p_[0] in env and p_[0] not in self.aliases:
                    vt = env.get(t_.id)
                    if vt is not None and not is_c(vt) and vt[0] not in ('lam', 'g', 'b'):
                        # x = self.a.b and x is later updated in place: x is a view of that (mutable) object
                        self.aliases[t_.id] = (p_, v_)
            return False
        if isinstance(s, ast.AnnAssign):
            if s.value is not None:
                self.store(s.target, self.ev(s.value, env), env)
            return False
        if isinstance(s, ast.AugAssign):
            cur = self.ev(s.target, env)
            v = self.ev(s.value, env)
            op_ = BIN[type(s.op)]
            if isinstance(s.target, ast.Name) and op_ in ('+', '*', '|', '&', '-', '^'):
                # x op= v updates a list / set / bytearray / dict IN PLACE (whoever else holds the object sees it) and rebinds
                # anything else.  The value of x is the same either way; where the object can be shared and may be such a
                # container, the statement is kept as an effect of its own, so that it is not the same as x = x op v.
                viewed = tgt_viewed = False
                if s.target.id in self.aliases:
                    viewed = True
                if any(q[0] == s.target.id for q, _ in self.aliases.values()):
                    tgt_viewed = True
                immut = kind_of(cur) == 'num' or is_c(cur) or is_bytes(cur) or cur[0] == 'tuple' or s.target.id in self.num_names \
                    or (s.target.id in self.fresh_names and not viewed and not tgt_viewed) \
                    or (op_ != '*' and (kind_of(v) == 'num' or (is_c(v) and isinstance(v[1], (str, int, float, bool)))))      # (bytearray += b'..' is in place)
                if not immut and (viewed or tgt_viewed or not owned_fresh(cur)):
                    effects.append(('do', ('inplace', C(op_), cur, v), ()))
            self.store(s.target, mk_bin(op_, cur, v, self.opts), env)
            return False
        if isinstance(s, ast.Expr):
            if isinstance(s.value, ast.Constant):
                return False      # docstring
            v = self.ev(s.value, env)
            if v[0] in ('sent',) or is_c(v) or v[0] == 'mutres':
                pass
            else:
                # the callee may read state written so far: keep the snapshot with the call
                effects.append(('do', v, self.roots_state(env)))
            return False
        if isinstance(s, ast.Return):
            v = NONE if s.value is None else self.ev(s.value, env)
            self.emit_return(v, self.roots_state(env), effects)
            return True
        if isinstance(s, ast.Raise):
            v = NONE if s.exc is None else self.ev(s.exc, env)
            effects.append(('exit', 'raise', v, self.roots_state(env)))
            return True
        if isinstance(s, ast.Assert):
            c = truth_form(self.ev(s.test, env))
            st_ = self.roots_state(env)        # a failing assert leaves the object as it is at this point
            for c1 in (c[1] if c[0] == 'and' else (c,)):
                if truth(c1) is not True:
                    effects.append(('assert', c1, st_) if st_ else ('assert', c1))
            return False
        if isinstance(s, ast.Pass):
            return False
        if isinstance(s, (ast.Break, ast.Continue)):
            # the values the loop's variables have at the jump (they are what the code after the loop / the next iteration sees)
            st_ = []
            if self.loop_stack:
                L_, start_, names_ = self.loop_stack[-1]
                for k_, v_ in enumerate(names_):
                    cur_ = env.get(v_)
                    if cur_ is not None and cur_ != start_.get(v_):
                        key_ = start_[v_] if (v_ in start_ and start_[v_][0] == 'phi' and start_[v_][1] == L_) else ('jumplocal', L_, k_)
                        st_.append(('set', key_, cur_))
            kind_ = 'break' if isinstance(s, ast.Break) else 'continue'
            effects.append((kind_, tuple(st_)) if st_ else (kind_,))
            return True
        if isinstance(s, (ast.Global, ast.Nonlocal)):
            return False
        if isinstance(s, (ast.Import, ast.ImportFrom)):
            for a in s.names:
                nm = (a.asname or a.name).split('.')[0]
                if a.name != '*':
                    env[nm] = ('g', nm)
            return False
        if isinstance(s, ast.Delete):
            for t in s.targets:
                if isinstance(t, ast.Name):
                    env.pop(t.id, None)
                    effects.append(('del', ('name', t.id)))
                else:
                    effects.append(('del', self.ev(t, env)))
                    if isinstance(t, (ast.Subscript, ast.Attribute)) and self.is_place(t.value):
                        # the container / object no longer has that item: later reads see a different object term
                        cur_ = self.ev(t.value, env)
                        what_ = self.ev(t.slice, env) if isinstance(t, ast.Subscript) else C(t.attr)
                        self.store(t.value, ('mut', 'del', cur_, (what_,)), env, True)
            return False
        if isinstance(s, ast.If):
            return self.exec_if(s, env, effects, rest)
        if isinstance(s, ast.For):
            return self.exec_for(s, env, effects)
        if isinstance(s, ast.While):
            return self.exec_while(s, env, effects)
        if isinstance(s, ast.FunctionDef):
            return self.exec_funcdef(s, env, effects)
        if isinstance(s, ast.ClassDef):
            env[s.name] = ('g', s.name)
            return False
        if isinstance(s, ast.Try):
            return self.exec_try(s, env, effects)
        if isinstance(s, ast.With):
            return self.exec_with(s, env, effects)
        raise Unsupported('statement ' + type(s).__name__, s)

    def merge_envs(self, c, ea, eb, env):
        keys = set(ea) | set(eb)
        for k in keys:
            a, b = ea.get(k), eb.get(k)
            if a is None and b is None:
                continue
            if a is None:
                a = ('unbound', '?')
            if b is None:
                b = ('unbound', '?')
            env[k] = a if a == b else mk_ite(c, a, b)
        for k in list(env):
            if k not in keys:
                del env[k]

    def exec_if(self, s, env, effects, rest):
        c = self.ev(s.test, env)
        tv = truth(c)
        if tv is True:
            return self.exec_block(s.body, env, effects)
        if tv is False:
            return self.exec_block(s.orelse, env, effects)
        ea, eb = dict(env), dict(env)
        fa, fb = [], []
        self.branch_depth += 1
        mark_ = len(self.partial_ops)
        al0 = dict(self.aliases)
        try:
            ta = self.exec_block(s.body, ea, fa)
            ala = self.aliases
            self.aliases = dict(al0)
            tb = self.exec_block(s.orelse, eb, fb)
            alb = self.aliases
        finally:
            self.branch_depth -= 1
        # a view made inside one branch ends with the branch; views dropped in a branch stay dropped
        self.aliases = {k: v for k, v in al0.items() if ala.get(k) == v and alb.get(k) == v}
        if ta != tb:
            # the rest of the block continues inside the live branch with that branch's views
            self.aliases = dict(alb if ta else ala)
        if (ta or tb) and self.partial_ops:
            # a guard that leaves the function, on a sequence whose items were already read: had the guard come first, those
            # reads would not have happened on the leaving path (the classic "access moved above its check")
            seqs = set()
            for x in walk(c):
                if x[0] == 'call' and x[1] == ('b', 'len') and len(x[2]) == 1:
                    seqs.add(x[2][0])
                if x[0] == 'cmp' and x[1] == 'in':
                    seqs.add(x[3])              # `if k not in d: return` guards d[k]
            for x in ([c] + list(c[1]) if c[0] in ('and', 'or') else [c]):
                seqs.add(x[1] if x[0] == 'not' else x)
            early = sorted({(q, i) for (q, i) in self.partial_ops[:mark_] if q in seqs}, key=skey)
            if early:
                effects.append(('read_before_guard', tuple(early)))
        if ta and tb:
            self.emit_if(c, fa, fb, effects)
            return True
        if ta or tb:
            # the rest of the enclosing block belongs to the non-terminated branch
            live_env, live_eff = (eb, fb) if ta else (ea, fa)
            t = self.exec_block(rest, live_env, live_eff)
            self.emit_if(c, fa, fb, effects)
            env.clear()
            env.update(live_env)
            self._last_term = t
            return 'consumed'
        self.merge_envs(c, ea, eb, env)
        if fa or fb:
            self.emit_if(c, fa, fb, effects)
        return False

    def emit_return(self, v, state, effects):
        # `return a if c else b`  ==  `if c: return a` / `else: return b`
        if v[0] == 'ite':
            fa, fb = [], []
            self.emit_return(v[2], state, fa)
            self.emit_return(v[3], state, fb)
            self.emit_if(v[1], fa, fb, effects)
        elif v == NONE:
            effects.append(('exit', 'end', NONE, state))      # `return` / `return None` is falling off the end
        else:
            effects.append(('exit', 'return', v, state))

    def emit_if(self, c, fa, fb, effects):
        c, flipped = canon_cond(c)
        if flipped:
            fa, fb = fb, fa
        if len(fa) == 1 and len(fb) == 1 and fa[0][0] == 'exit' and fb[0][0] == 'exit' and fa[0][1] == fb[0][1] \
                and fa[0][1] in ('return', 'end'):
            # both branches only leave the function: one exit with a conditional value and a conditional final state
            # (`if c: x.a = 1; return` + rest   ==   `if c: x.a = 1 else: rest`)
            sa, sb = {r[1]: r[2] for r in fa[0][3]}, {r[1]: r[2] for r in fb[0][3]}
            st = []
            for name in sorted(set(sa) | set(sb)):
                init = self.roots.get(name)
                if init is None:
                    break
                v = mk_ite(c, sa.get(name, init), sb.get(name, init))
                if v != init:
                    st.append(('root', name, v))
            else:
                effects.append(('exit', fa[0][1], mk_ite(c, fa[0][2], fb[0][2]), tuple(st)))
                return
        effects.append(('if', c, tuple(fa), tuple(fb)))

    # -- structural normal form of effect lists -------------------------------------------------------------
    @staticmethod
    def _terminated(effs):
        if not effs:
            return False
        e = effs[-1]
        if e[0] in ('exit', 'break', 'continue'):
            return True
        if e[0] == 'if':
            return PE._terminated(e[2]) and PE._terminated(e[3])
        return False

    def _mk_if(self, c, A, B):
        """one `if` effect in normal form (c is canonical):  nested ifs sharing a branch become one conjunction,
        two bare exits become one conditional exit"""
        A, B = tuple(A), tuple(B)
        if A == B:
            return list(A)
        tail = []
        while A and B and A[-1] == B[-1] and A[-1][0] in ('do', 'exit', 'assert', 'yield', 'yieldfrom', 'break', 'continue'):
            tail.insert(0, A[-1])        # both branches end with the same effect (same state snapshot): it follows the `if`
            A, B = A[:-1], B[:-1]
        if tail:
            return (self._mk_if(c, A, B) if (A or B) else []) + tail
        for (outer_then, inner, other) in ((True, A, B), (False, B, A)):
            if len(inner) == 1 and inner[0][0] == 'if':
                c2, X, Y = inner[0][1], tuple(inner[0][2]), tuple(inner[0][3])
                c1 = c if outer_then else mk_not(c)
                if Y == other:            # if c1: (if c2: X else: Y) else: Y   ->   if c1 and c2: X else: Y
                    tmp = []
                    self.emit_if(mk_bool('and', [c1, c2]), list(X), list(Y), tmp)
                    return tmp
                if X == other:            # if c1: (if c2: X else: Y) else: X   ->   if c1 and not c2: Y else: X
                    tmp = []
                    self.emit_if(mk_bool('and', [c1, mk_not(c2)]), list(Y), list(X), tmp)
                    return tmp
        if len(A) >= 1 and len(B) >= 1 and A[-1][0] == 'exit' and B[-1][0] == 'exit' and A[-1][1] == B[-1][1] \
                and A[-1][1] in ('return', 'end') and (len(A) > 1 or len(B) > 1):
            # both branches leave the function the same way: one exit after the `if`, with conditional value and state
            merged = []
            self.emit_if(c, [A[-1]], [B[-1]], merged)
            if len(merged) == 1 and merged[0][0] == 'exit':
                return self._mk_if(c, A[:-1], B[:-1]) + merged
        tmp = []
        self.emit_if(c, list(A), list(B), tmp)
        return tmp

    def _strip_tail_continue(self, effs):
        """a `continue` at the very end of a loop body (also at the end of a trailing if-branch) does nothing"""
        effs = list(effs)
        if not effs:
            return effs
        last = effs[-1]
        if last == ('continue',):
            return self._strip_tail_continue(effs[:-1])
        if last[0] == 'if':
            a_ = self._strip_tail_continue(last[2])
            b_ = self._strip_tail_continue(last[3])
            if tuple(a_) != tuple(last[2]) or tuple(b_) != tuple(last[3]):
                return self.tidy(effs[:-1] + self._mk_if(last[1], a_, b_))
        return effs

    def tidy(self, effs):
        """effects after an `if` one of whose branches leaves belong to the other branch; then normalise each `if`"""
        out = []
        effs = list(effs)
        # two consecutive ifs on the same (SSA) condition are one if
        k_ = 0
        while k_ + 1 < len(effs):
            a_, b_ = effs[k_], effs[k_ + 1]
            if a_[0] == 'if' and b_[0] == 'if' and a_[1] == b_[1] and not self._terminated(a_[2]) and not self._terminated(a_[3]):
                effs[k_:k_ + 2] = [('if', a_[1], tuple(a_[2]) + tuple(b_[2]), tuple(a_[3]) + tuple(b_[3]))]
            else:
                k_ += 1
        for i, e in enumerate(effs):
            if e[0] == 'if':
                A, B = self.tidy(e[2]), self.tidy(e[3])
                ta, tb = self._terminated(A), self._terminated(B)
                rest = effs[i + 1:]
                if rest and ta != tb:
                    if ta:
                        B = self.tidy(list(B) + rest)
                    else:
                        A = self.tidy(list(A) + rest)
                    out.extend(self._mk_if(e[1], A, B))
                    return out
                if 1 <= len(rest) <= 3 and rest[-1][0] == 'exit' and rest[-1][1] in ('end', 'return') and not ta and not tb and (A or B) \
                        and all(x[0] in ('yield', 'exit') for x in rest):
                    # `if c: A else: B` followed by (yields and) one exit whose values / final state still choose on c: they belong
                    # to each branch with its own values (the form an early `return` / `yield` in the branches produces)
                    cc = e[1]
                    ra_, rb_, pushed = [], [], False
                    for ex in rest:
                        ites = [x for x in walk(ex) if x[0] == 'ite' and len(x) == 4 and x[1] == cc]
                        ea_ = substitute(ex, {x: x[2] for x in ites}, self.opts) if ites else ex
                        eb_ = substitute(ex, {x: x[3] for x in ites}, self.opts) if ites else ex
                        ea_, eb_ = self._drop_unchanged_roots(ea_), self._drop_unchanged_roots(eb_)
                        if ea_[0] != ex[0] or eb_[0] != ex[0]:
                            pushed = False
                            break
                        pushed = pushed or (bool(ites) and ea_ != eb_)
                        ra_.append(ea_)
                        rb_.append(eb_)
                    if pushed:
                        out.extend(self._mk_if(cc, self.tidy(list(A) + ra_), self.tidy(list(B) + rb_)))
                        return out
                new = self._mk_if(e[1], A, B)
                if rest and new and new[-1][0] == 'if' and new[-1] != ('if', e[1], tuple(A), tuple(B)) \
                        and self._terminated(new[-1][2]) != self._terminated(new[-1][3]):
                    # merging changed the shape: one branch of the new `if` leaves, the rest belongs to the other
                    return out + new[:-1] + self.tidy([new[-1]] + rest)
                out.extend(new)
                if ta and tb:
                    return out
            elif e[0] in ('for', 'while'):
                out.append(e[:5] + (tuple(self._strip_tail_continue(self.tidy(e[5]))), tuple(self.tidy(e[6]))))
            else:
                out.append(e)
                if e[0] in ('exit', 'break', 'continue'):
                    return out
        return out

    def _drop_unchanged_roots(self, ex):
        """an exit's final state lists the roots that changed: in a branch where one did not, it is not listed"""
        if ex[0] == 'exit' and len(ex) == 4 and type(ex[3]) is tuple:
            st = tuple(r for r in ex[3] if not (type(r) is tuple and len(r) == 3 and r[0] == 'root' and self.roots.get(r[1]) == r[2]))
            return ex[:3] + (st,)
        return ex

    def _writing(self, name):
        return self.purity is not None and self.purity.is_writing(name)

    def _written_args(self, call):
        if self.purity is None:
            return []
        f = call.func
        name = f.attr if isinstance(f, ast.Attribute) else (f.id if isinstance(f, ast.Name) else None)
        out = []
        if name == 'next' and isinstance(f, ast.Name) and call.args:
            r = call.args[0]
            while isinstance(r, (ast.Attribute, ast.Subscript)):
                r = r.value
            if isinstance(r, ast.Name):
                out.append(r.id)
        for i in self.purity.params_written(name) if name else ():
            if i < len(call.args):
                r = call.args[i]
                while isinstance(r, (ast.Attribute, ast.Subscript)):
                    r = r.value
                if isinstance(r, ast.Name):
                    out.append(r.id)
        return out

    def assigned_names(self, stmts):
        out = []

        def root(n):
            while isinstance(n, (ast.Attribute, ast.Subscript)):
                n = n.value
            return n.id if isinstance(n, ast.Name) else None

        def tgt(t):
            if isinstance(t, ast.Name):
                out.append(t.id)
            elif isinstance(t, (ast.Tuple, ast.List)):
                for e in t.elts:
                    tgt(e)
            elif isinstance(t, ast.Starred):
                tgt(t.value)
            else:
                r = root(t)
                if r:
                    out.append(r)
        def dfs(n):         # source order: wrapping an assignment in a branch does not move it
            yield n
            for c in ast.iter_child_nodes(n):
                yield from dfs(c)
        for st in stmts:
            for n in dfs(st):
                if isinstance(n, ast.Assign):
                    for t in n.targets:
                        tgt(t)
                elif isinstance(n, (ast.AugAssign, ast.AnnAssign)):
                    tgt(n.target)
                elif isinstance(n, (ast.For, ast.comprehension)):
                    if isinstance(n, ast.For):
                        tgt(n.target)
                elif isinstance(n, ast.NamedExpr):
                    tgt(n.target)
                elif isinstance(n, ast.Call) and isinstance(n.func, ast.Attribute) and (n.func.attr in MUTATORS or self._writing(n.func.attr)):
                    r = root(n.func.value)
                    if r:
                        out.append(r)
                    for r in self._written_args(n):
                        out.append(r)
                elif isinstance(n, ast.Call) and isinstance(n.func, ast.Name):
                    for r in self._written_args(n):
                        out.append(r)
                elif isinstance(n, ast.FunctionDef):
                    out.append(n.name)
                elif isinstance(n, ast.ExceptHandler) and n.name:
                    out.append(n.name)
                elif isinstance(n, (ast.Import, ast.ImportFrom)):
                    for a in n.names:
                        out.append((a.asname or a.name).split('.')[0])
                elif isinstance(n, ast.Delete):
                    for t in n.targets:
                        tgt(t)
        seen = []
        for x in out:
            if x not in seen:
                seen.append(x)
        return seen

    def has_jump(self, stmts):
        """break / continue / return inside the statements (a yield is an effect like any other)"""
        for st in stmts:
            for n in ast.walk(st):
                if isinstance(n, (ast.Break, ast.Continue, ast.Return)):
                    return True
        return False

    def has_flow_escape(self, stmts):
        for st in stmts:
            for n in ast.walk(st):
                if isinstance(n, (ast.Break, ast.Continue, ast.Return, ast.Yield, ast.YieldFrom)):
                    return True
        return False

    def _written_roots(self, stmts):
        w = set(self.assigned_names(stmts))
        for v_ in list(w):
            if v_ in self.aliases:
                w.add(self.aliases[v_][0][0])
        for v_, al_ in self.aliases.items():
            if al_[0][0] in w:
                w.add(v_)
        return w

    def _live_iterable(self, s):
        """`for x in map(f, l)` / zip / enumerate / reversed / a generator expression read their sources while the loop runs: when
        the body may change one of them the loop is not the loop over the list made beforehand"""
        lazy = isinstance(s.iter, ast.GeneratorExp) or (
            isinstance(s.iter, ast.Call) and isinstance(s.iter.func, ast.Name)
            and s.iter.func.id in self.LAZY_BUILTINS)
        if not lazy:
            return False
        return self._reads_written(s.iter, s.body)

    LAZY_BUILTINS = ('map', 'filter', 'zip', 'enumerate', 'reversed', 'iter')

    def _live_parts(self, e):
        """the sub-expressions of a lazy iterable that are read WHILE it is consumed: the objects it walks over (arguments that
        are places; an argument that is a call or an arithmetic expression is evaluated once and yields an object of its own),
        the bodies of lambdas, and everything in a generator expression but its first iterable's own evaluation"""
        out = []

        def place(a):
            if isinstance(a, ast.Starred):
                place(a.value)
            elif isinstance(a, ast.IfExp):
                place(a.body)
                place(a.orelse)
            elif isinstance(a, (ast.Name, ast.Attribute, ast.Subscript)):
                out.append(a)
            elif isinstance(a, ast.Lambda):
                out.append(a)
            elif isinstance(a, ast.GeneratorExp) or (isinstance(a, ast.Call) and isinstance(a.func, ast.Name)
                                                    and a.func.id in self.LAZY_BUILTINS):
                out.extend(self._live_parts(a))
        if isinstance(e, ast.GeneratorExp):
            place(e.generators[0].iter)
            out.append(e.elt)
            for k_, g in enumerate(e.generators):
                out.extend(g.ifs)
                if k_:
                    out.append(g.iter)
        elif isinstance(e, ast.Call):
            for a in e.args:
                place(a)
        else:
            out.append(e)
        return out

    def _reads_written(self, expr, stmts):
        """may the statements change an object (or rebind a name / attribute) that the expression reads?  Access paths
        (`self.a.b`; an item access ends the path) are compared by prefix; with aliases in play, by root name."""
        def path(n):
            p_ = []
            while isinstance(n, (ast.Attribute, ast.Subscript)):
                if isinstance(n, ast.Subscript):
                    p_ = []
                else:
                    p_.append(n.attr)
                n = n.value
            return ((n.id,) + tuple(reversed(p_))) if isinstance(n, ast.Name) else None
        reads = set()
        for part in self._live_parts(expr):
            for n in ast.walk(part):
                if isinstance(n, (ast.Attribute, ast.Name, ast.Subscript)) and isinstance(getattr(n, 'ctx', None), ast.Load):
                    pp = path(n)
                    if pp:
                        reads.add(pp)
        # keep maximal paths only (self.a.b also yields self.a and self while walking)
        reads = {r for r in reads if not any(o != r and o[:len(r)] == r for o in reads)}
        writes = set()
        for st in stmts:
            for n in ast.walk(st):
                if isinstance(n, (ast.Attribute, ast.Subscript, ast.Name)) and isinstance(getattr(n, 'ctx', None), (ast.Store, ast.Del)):
                    pp = path(n.value) if isinstance(n, ast.Subscript) else path(n)
                    if pp:
                        writes.add(pp)
                elif isinstance(n, ast.Call):
                    if isinstance(n.func, ast.Attribute) and (n.func.attr in MUTATORS or self._writing(n.func.attr)):
                        pp = path(n.func.value)
                        if pp:
                            writes.add(pp)
                    for r in self._written_args(n):
                        writes.add((r,))
        roots = {r[0] for r in reads} | {w[0] for w in writes}
        if any(v in self.aliases for v in roots) or any(al_[0][0] in roots for al_ in self.aliases.values()):
            return bool({r[0] for r in reads} & self._written_roots(stmts))
        return any(r[:len(w)] == w or w[:len(r)] == r for r in reads for w in writes)

    def exec_for(self, s, env, effects):
        it = self.ev(s.iter, env)
        if self._live_iterable(s):
            it = ('call', ('b', 'live_iter'), (it,), ())
        if isinstance(s.iter, ast.Name) and s.iter.id in env and self._is_iterator(env[s.iter.id]):
            r_ = self._exec_for(s, env, effects, it)
            if s.iter.id in env:
                self.store(s.iter, ('mut', 'consumed', env[s.iter.id], ()), env, True)      # the loop used the named iterator up
            return r_
        return self._exec_for(s, env, effects, it)

    def _exec_for(self, s, env, effects, it):
        if it[0] == 'call' and it[1] == ('b', 'iter') and len(it[2]) == 1 and not it[3] and isinstance(s.iter, ast.Call) \
                and canon_seq(it[2][0], self.opts) is not None:
            it = it[2][0]            # for x in iter(seq): the iterator is not named, the loop is its only consumer
        items = iter_items(it) if self.unroll else None
        if items is None and it[0] in ('tuple', 'list') and len(it[1]) <= 8 and not self.has_jump(s.body) and not s.orelse:
            # a literal sequence of at most 8 elements: canonical form is the unrolled loop
            # (makes `for w in W` + running counter and `for k, w in enumerate(W)` + closed form the same term)
            items = list(it[1])
            limit = 8
        else:
            limit = self.unroll
        if items is not None and len(items) <= limit and not self.has_jump(s.body) and not s.orelse:
            memo = {}
            for x in items:
                self.bind_target(s.target, x, env)
                if self.exec_block(s.body, env, effects):
                    return True
                # unrolling must not blow terms up (a conditional update doubles the tree each iteration)
                if any(tree_size(v, memo) > 60000 for v in env.values()):
                    raise Unsupported('unrolled loop makes terms too large', s)
            return False
        ci = canon_iter(it, self.opts)
        if ci is not None:
            n, g = ci
            self.loop_summary('for', s, canon_range(n), env, effects, lambda its, cnt: g(its))
        elif it[0] == 'call' and it[1] == ('b', 'enumerate') and len(it[2]) in (1, 2) and not it[3]:
            # enumerate over an opaque iterator: the loop over the iterator itself, the index is the iteration counter
            start = it[2][1] if len(it[2]) == 2 else C(0)
            self.loop_summary('for', s, it[2][0], env, effects,
                              lambda its, cnt: ('tuple', ((cnt if start == C(0) else mk_bin('+', cnt, start, self.opts)), its)))
        else:
            self.loop_summary('for', s, it, env, effects)
        return False

    def exec_while(self, s, env, effects):
        self.loop_summary('while', s, None, env, effects)
        return False

    def loop_summary(self, kind, s, it, env, effects, elem=None):
        self.nloops += 1
        L = self.nloops
        assigned = self.assigned_names(s.body + ([] if kind == 'while' else []))
        for v_ in list(assigned):
            if v_ in self.aliases and self.aliases[v_][0][0] not in assigned:
                assigned.append(self.aliases[v_][0][0])      # an update through a view updates the viewed object's root
        if kind == 'for':
            tn = self.assigned_names([ast.Assign(targets=[s.target], value=ast.Constant(value=0))])
        else:
            tn = []
        carried = [v for v in assigned if v in env and v not in tn]
        first = {}
        for n_ in ast.walk(ast.Module(body=list(s.body) + ([ast.Expr(value=s.test)] if kind == 'while' else []), type_ignores=[])):
            if isinstance(n_, ast.Name):
                pos_ = (getattr(n_, 'lineno', 0), getattr(n_, 'col_offset', 0))
                if n_.id not in first or pos_ < first[n_.id]:
                    first[n_.id] = pos_          # first occurrence in source order (nesting does not matter)
        carried.sort(key=lambda v: (skey(env[v]), first.get(v, (1 << 30, 0))))
        inits = tuple(env[v] for v in carried)
        env2 = dict(env)

        def ksuf(t):
            k = kind_of(t)
            return (k,) if k == 'num' else ()

        def itsym(path=()):
            suf = ('num',) if (kind == 'for' and it[0] == 'range') else ()
            return ('it', L) + path + suf

        def cntsym():
            """number of completed iterations"""
            if kind == 'for' and it[0] == 'range':
                if it[1] == C(0) and it[3] == C(1):
                    return itsym()
                if is_int(it[1]) and is_int(it[3]) and it[3][1] != 0:
                    return mk_bin('//', mk_bin('-', itsym(), it[1], self.opts), it[3], self.opts)
            return ('cnt', L, 'num')
        for rank, v in enumerate(carried):
            env2[v] = ('phi', L, rank) + ksuf(inits[rank])
        for v in assigned:
            if v not in env and v not in tn:
                env2.pop(v, None)
        # objects created before the loop and used inside it keep their identity across iterations:
        # mark them, so that hoisting a constructor call out of a loop is not the same term as
        # constructing a fresh object per iteration (matters for stateful objects)
        for v in list(env2):
            if v not in carried and v not in tn and is_alloc(env2[v]):
                env2[v] = ('hoist', env2[v])
        if kind == 'for':
            if elem is not None:
                self.bind_target(s.target, elem(itsym(), cntsym()), env2)
            else:
                self.bind_pattern_syms(s.target, env2, itsym)
            cond = None
        else:
            cond = truth_form(self.ev(s.test, env2))
        body_eff = []
        save = (self.nloops, self.ntry, len(self.sm.funcs), list(self.sm.undefined))
        env_first = dict(env2)
        self.loop_stack.append((L, dict(env2), list(assigned)))
        self.exec_block(s.body, env2, body_eff)
        self.loop_stack.pop()
        nexts = tuple(env2.get(v, ('unbound', '?')) for v in carried)
        # induction variables: v' = v + k (k loop-invariant constant) over range(a, b, st) -> closed form
        if kind == 'for' and ((it[0] == 'range' and is_int(it[1]) and is_int(it[3]) and it[3][1] != 0) or it[0] != 'range') \
                and (isinstance(s.target, ast.Name) or elem is not None or it[0] != 'range'):
            ivs = {}
            for rank, v in enumerate(carried):
                phi = ('phi', L, rank) + ksuf(inits[rank])
                nx = nexts[rank]
                k = None
                if nx[0] == '+' and phi in nx[1] and list(nx[1]).count(phi) == 1:
                    rest = [x for x in nx[1] if x != phi]
                    inv = True
                    for r_ in rest:
                        for sub in walk(r_):
                            if sub[0] in ('phi', 'it', 'cnt', 'after', 'afterlocal') and len(sub) > 1 and sub[1] == L:
                                inv = False
                                break
                        if not inv:
                            break
                    numeric = is_int(inits[rank]) or all(kind_of(r_) == 'num' for r_ in rest)
                    if inv and numeric and rest:
                        k = rest[0]
                        for r_ in rest[1:]:
                            k = mk_bin('+', k, r_, self.opts)
                if k is not None and kind_of(inits[rank]) != 'seq':
                    ivs[v] = (rank, k, '+')
                elif nx[0] == 'ite' and is_int(inits[rank]) and type(inits[rank][1]) is int and inits[rank][1] >= 0:
                    # wrapping counter:  j += 1; if j == M: j = 0   ->   (j0 + iterations) % M
                    o_ = Opts(plus_commutes=True)
                    t_ = mk_bin('+', phi, C(1), o_)
                    cands = [x for x in walk(nx[1]) if is_int(x) and type(x[1]) is int and x[1] > inits[rank][1]]
                    for m_ in {x[1] for x in cands} | {x[1] + 1 for x in cands}:
                        if mk_ite(mk_cmp('==', t_, C(m_)), C(0), t_) == nx:
                            ivs[v] = (rank, C(1), ('mod', m_))
                            break
                elif nx[0] in ('>>', '<<') and len(nx[1]) == 2 and nx[1][0] == phi and is_int(nx[1][1]) and type(nx[1][1][1]) is int:
                    ivs[v] = (rank, nx[1][1], nx[0])      # running shift: v >>= c  ->  v0 >> (c * iterations)
            if ivs:
                cnt = cntsym()

                def closed(rank, k, how, n):
                    if type(how) is tuple and how[0] == 'mod':
                        return mk_bin('%', mk_bin('+', inits[rank], n, self.opts), C(how[1]), self.opts)
                    if how == '+':
                        return mk_bin('+', inits[rank], mk_bin('*', k, n, self.opts), self.opts)
                    return mk_bin(how, inits[rank], mk_bin('*', k, n, self.opts), self.opts)
                carried2 = [v for v in carried if v not in ivs]
                self.nloops, self.ntry = save[0], save[1]
                del self.sm.funcs[save[2]:]
                self.sm.undefined[:] = save[3]
                env2 = dict(env)
                inits2 = tuple(env[v] for v in carried2)
                for rank, v in enumerate(carried2):
                    env2[v] = ('phi', L, rank) + ksuf(inits2[rank])
                for v, (rank, k, how) in ivs.items():
                    env2[v] = closed(rank, k, how, cnt)
                for v in assigned:
                    if v not in env and v not in tn:
                        env2.pop(v, None)
                for v in list(env2):
                    if v not in carried2 and v not in ivs and v not in tn and is_alloc(env2[v]):
                        env2[v] = ('hoist', env2[v])
                if elem is not None:
                    self.bind_target(s.target, elem(itsym(), cntsym()), env2)
                else:
                    self.bind_pattern_syms(s.target, env2, itsym)
                body_eff = []
                self.loop_stack.append((L, dict(env2), list(assigned)))
                nn_ = self.num_names
                self.num_names = nn_ | set(ivs)          # counters (int start, constant step) are numbers
                self.exec_block(s.body, env2, body_eff)
                self.num_names = nn_
                self.loop_stack.pop()
                n_it = None
                try:
                    n_it = C(len(to_py(it)))
                except (NotConcrete, TypeError):
                    n_it = ('call', ('b', 'len'), (it,), ())
                if any(isinstance(n_, ast.Break) for st_ in s.body for n_ in ast.walk(st_)):
                    n_it = ('done', L, 'num')        # a loop that may break: the iterations actually completed
                old_inits = inits
                for v, (rank, k, how) in ivs.items():
                    env2[v] = closed(rank, k, how, n_it)
                iv_after = {v: env2[v] for v in ivs}
                carried = carried2
                inits = tuple(env[v] for v in carried)
                nexts = tuple(env2.get(v, ('unbound', '?')) for v in carried)
                for v in ivs:
                    env[v] = iv_after[v]
        # ---- a loop whose body is one inner loop over a constant number of steps, threading the same carried variables,
        #      is the flat loop over n1*n2 steps (3 rounds x 16 steps == 48 steps with r = i//16, j = i%16)
        if kind == 'for' and it[0] == 'range' and it[1] == C(0) and it[3] == C(1) and len(body_eff) == 1 and body_eff[0][0] == 'for' \
                and not s.orelse and carried and not self.has_flow_escape(s.body):
            e2 = body_eff[0]
            L2, it2, inits2, nexts2, beff2, else2 = e2[1], e2[2], e2[3], e2[4], e2[5], e2[6]
            n2 = it2[2] if it2[0] == 'range' else None

            def outer_dep(x):
                return x[0] in ('phi', 'it', 'cnt') and len(x) > 1 and x[1] == L
            if n2 is not None and it2[1] == C(0) and it2[3] == C(1) and is_int(n2) and type(n2[1]) is int and n2[1] > 0 and not else2 \
                    and len(inits2) == len(carried) and L2 == self.nloops and L2 == L + 1:
                phis1 = [('phi', L, r_) + ksuf(inits[r_]) for r_ in range(len(carried))]
                sigma = {}
                ok_ = True
                for j_, i2 in enumerate(inits2):
                    if i2 in phis1 and phis1.index(i2) not in sigma.values():
                        sigma[j_] = phis1.index(i2)
                    else:
                        ok_ = False
                if ok_:
                    for j_, k_ in sigma.items():
                        suf2 = ('num',) if kind_of(inits2[j_]) == 'num' else ()
                        if nexts[k_] != ('after', L2, j_) + suf2:
                            ok_ = False
                if ok_:
                    I = ('it', L, 'num')
                    sub = {('it', L, 'num'): mk_bin('//', I, n2, self.opts), ('it', L2, 'num'): mk_bin('%', I, n2, self.opts)}
                    for j_, k_ in sigma.items():
                        suf2 = ('num',) if kind_of(inits2[j_]) == 'num' else ()
                        sub[('phi', L2, j_) + suf2] = phis1[k_]
                    new_nexts = [None] * len(carried)
                    for j_, k_ in sigma.items():
                        new_nexts[k_] = substitute(nexts2[j_], sub, self.opts)
                    nexts = tuple(new_nexts)
                    body_eff = list(substitute(tuple(beff2), sub, self.opts))
                    it = ('range', C(0), mk_bin('*', it[2], n2, self.opts), C(1))
                    # locals of the inner body seen after the loops
                    for v in list(env2):
                        t_ = env2[v]
                        if type(t_) is tuple and t_ and t_[0] == 'afterlocal' and t_[1] == L2:
                            env2[v] = substitute(t_[2], sub, self.opts)
                    self.nloops = L
        # ---- accumulators of a pure loop are comprehensions:  l=[]; for x in S: l.append(e)  ==  [e for x in S]
        pending_folded = {}

        def loopsym(x):
            return x[0] in ('phi', 'after', 'afterlocal', 'afterit') and len(x) > 1 and x[1] == L

        def rerank(keep):
            ren = {}
            for newrank, v in enumerate(keep):
                old = carried.index(v)
                for tg in ('phi', 'after'):
                    ren[(tg, L, old) + ksuf(inits[old])] = (tg, L, newrank) + ksuf(inits[old])
            ident = all(k == v_ for k, v_ in ren.items())
            nn = tuple((nexts[carried.index(v)] if ident else substitute(nexts[carried.index(v)], ren, self.opts)) for v in keep)
            ni = tuple(inits[carried.index(v)] for v in keep)
            return ren, ident, ni, nn

        if kind == 'for' and not body_eff and not s.orelse and not self.has_flow_escape(s.body) and carried:
            d = self.lam_depth + 1
            isrange = it[0] == 'range' and it[1] == C(0) and it[3] == C(1)
            if isrange or it[0] != 'range':
                folds = {}
                for rank, v in enumerate(carried):
                    phi = ('phi', L, rank) + ksuf(inits[rank])
                    nx = nexts[rank]
                    cond = None
                    if nx[0] == 'ite' and (nx[3] == phi or nx[2] == phi):
                        cond = nx[1] if nx[3] == phi else mk_not(nx[1])
                        nx = nx[2] if nx[3] == phi else nx[3]
                        if mentions(cond, loopsym):
                            continue
                    e, how = None, None
                    if nx[0] == 'mut' and nx[1] == 'append' and nx[2] == phi and len(nx[3]) == 1:
                        e, how = nx[3][0], 'elem'
                    elif nx[0] == 'mut' and nx[1] == 'extend' and nx[2] == phi and len(nx[3]) == 1:
                        e, how = nx[3][0], 'chain'
                    elif nx[0] == '+' and len(nx[1]) == 2 and nx[1][0] == phi and kind_of(inits[rank]) == 'seq':
                        x = nx[1][1]
                        if inits[rank][0] == 'list':
                            if x[0] == 'list' and len(x[1]) == 1:
                                e, how = x[1][0], 'elem'
                            else:
                                e, how = x, 'chain'
                        elif inits[rank][0] == 'c' and isinstance(inits[rank][1], (bytes, str)):
                            e, how = x, 'join'
                    if e is None and cond is None and isrange and nx[0] == 'upd' and nx[1] == phi and len(nx[2]) == 1 \
                            and nx[2][0][0] == itsym():
                        init_ = inits[rank]
                        n_ = None
                        if init_[0] == 'list':
                            n_ = C(len(init_[1]))
                        elif init_[0] == '*' and len(init_[1]) == 2:
                            for lst_, cnt_ in (init_[1], init_[1][::-1]):
                                if lst_[0] == 'list' and len(lst_[1]) == 1:
                                    n_ = cnt_
                        if n_ is not None and n_ == it[2]:
                            e, how = nx[2][0][1], 'store'      # every slot of the pre-sized list is overwritten
                    if e is None or mentions(e, loopsym):
                        continue
                    folds[v] = (rank, e, how, cond)
                keep = [v for v in carried if v not in folds]
                facc = {('phi', L, folds[v][0]) + ksuf(inits[folds[v][0]]) for v in folds}
                if folds and not any(mentions(nexts[carried.index(v)], lambda x: x in facc) for v in keep):
                    def to_bv(t):
                        t = shift_binders(t, d, 1)
                        if isrange:
                            return substitute(t, {itsym(): ('bv', d, 0, 'num')}, self.opts)

                        def rec(x):
                            if type(x) is not tuple or not x:
                                return x
                            if x[0] == 'it' and len(x) > 1 and x[1] == L:
                                return ('bv', d, 0) + tuple(x[2:])
                            return tuple(rec(y) if type(y) is tuple else y for y in x)
                        return substitute(rec(t), {}, self.opts)
                    for v, (rank, e, how, cond) in folds.items():
                        e2 = to_bv(e)
                        conds = () if cond is None else (to_bv(cond),)
                        gens = [(it, conds)]
                        if how == 'chain':
                            ci = canon_iter(e2, self.opts)
                            if ci is not None:
                                gens.append((canon_range(ci[0]), ()))
                                elt = ci[1](('bv', d, 1, 'num'))
                            else:
                                gens.append((e2, ()))
                                elt = ('bv', d, 1)
                        else:
                            elt = e2
                        comp = mk_comp('list', d, elt, tuple(gens))
                        if comp[0] == 'comp' and isrange and how != 'chain' and is_int(it[2]) and 0 <= it[2][1] <= 256:
                            # a constant trip count: the comprehension is the list of its elements (as a literal comprehension is)
                            items, okc = [], True
                            for k_ in range(it[2][1]):
                                sub1 = {('bv', d, 0, 'num'): C(k_)}
                                if conds:
                                    tv = truth(substitute(conds[0], sub1, self.opts))
                                    if tv is None:
                                        okc = False
                                        break
                                    if not tv:
                                        continue
                                items.append(shift_binders(substitute(elt, sub1, self.opts), d + 1, -1))
                            if okc:
                                comp = ('list', tuple(items))
                        init = inits[rank]
                        if how == 'store':
                            pending_folded[v] = comp
                        elif how == 'join':
                            empty = C(b'') if isinstance(init[1], bytes) else C('')
                            joined = ('call', ('attr', empty, 'join'), (comp,), ())
                            pending_folded[v] = joined if init == empty else mk_bin('+', init, joined, self.opts)
                        else:
                            pending_folded[v] = comp if init == ('list', ()) else mk_bin('+', init, comp, self.opts)
                    ren, ident, inits2, nexts2 = rerank(keep)
                    carried, inits, nexts = keep, inits2, nexts2
        # ---- carried variables that the loop never reads are locals of the body (their value before the loop is dead)
        if carried:
            dead = []
            for rank, v in enumerate(carried):
                phi = ('phi', L, rank) + ksuf(inits[rank])
                used = any(mentions(x, lambda y: y == phi) for k2_, x in enumerate(nexts) if not (k2_ == rank and x == phi)) \
                    or mentions(tuple(body_eff), lambda y: y == phi) \
                    or (cond is not None and mentions(cond, lambda y: y == phi))
                if not used and v not in self.roots:
                    dead.append(v)
            if dead:
                keep = [v for v in carried if v not in dead]
                for v in dead:
                    r_ = carried.index(v)
                    unchanged = nexts[r_] == ('phi', L, r_) + ksuf(inits[r_])
                    pending_folded.setdefault(v, inits[r_] if unchanged else ('afterlocal', L, nexts[r_]))
                ren, ident, inits2, nexts2 = rerank(keep)
                if not ident:
                    body_eff = list(substitute(tuple(body_eff), ren, self.opts))
                    for k_ in list(self.loop_W):
                        if k_[0] > L:        # inner loops remember their initial objects in terms of this loop's phis
                            w_, i_ = self.loop_W[k_]
                            self.loop_W[k_] = (w_, substitute(i_, ren, self.opts))
                    if cond is not None:
                        cond = substitute(cond, ren, self.opts)
                carried, inits, nexts = keep, inits2, nexts2
        # ---- attributes of a carried object that the loop never stores are read from the object as it was before the loop
        #      (hoisting `n = self.size` out of a loop that only updates self.H is the same term)
        if carried:
            def written_attrs(N, phi):
                if N == phi:
                    return set()
                if N[0] == 'obj':
                    w = written_attrs(N[1], phi)
                    return None if w is None else w | {a[1] for a in N[2]}
                if N[0] == 'ite':
                    a_, b_ = written_attrs(N[2], phi), written_attrs(N[3], phi)
                    return None if a_ is None or b_ is None else a_ | b_
                if N[0] == 'after' and (N[1], N[2]) in self.loop_W:
                    w2, init2 = self.loop_W[(N[1], N[2])]     # the object after an inner loop
                    if w2 is None:
                        return None
                    w = written_attrs(init2, phi)
                    return None if w is None else w | w2
                return None
            # attributes that an inner loop never stores, read from the object after that loop
            fa_ = self.after_attr_forward(tuple(nexts) + tuple(body_eff) + ((cond,) if cond is not None else ()))
            if fa_:
                nexts = tuple(substitute(x, fa_, self.opts) for x in nexts)
                body_eff = list(substitute(tuple(body_eff), fa_, self.opts))
                if cond is not None:
                    cond = substitute(cond, fa_, self.opts)
            fwd = {}
            pool = tuple(nexts) + tuple(body_eff) + ((cond,) if cond is not None else ())
            for rank, v in enumerate(carried):
                phi = ('phi', L, rank) + ksuf(inits[rank])
                W = written_attrs(nexts[rank], phi)
                self.loop_W[(L, rank)] = (W, inits[rank])
                if W is None or inits[rank][0] in ('c', 'list', 'tuple', 'dict'):
                    continue
                # the object must not be handed to anything that could update it: phi may only occur under attr / its own obj wrappers
                bare = False
                for x in walk(pool):
                    if x[0] == 'root' and len(x) == 3 and x[2] == phi:
                        continue         # a state snapshot naming the (so far unchanged) object: nothing is done to it
                    if x[0] in ('call', 'mut', 'do', 'yield', 'tuple', 'list', 'idx', 'upd', 'exit', 'cmp', 'root') and phi in x[1:] :
                        bare = True
                        break
                    if x[0] == 'call' and (phi in x[2] or any(k[2] == phi for k in x[3])):
                        bare = True
                        break
                if bare:
                    continue
                for x in walk(pool):
                    if x[0] == 'attr' and x[1] == phi and x[2] not in W:
                        fwd[x] = get_attr(inits[rank], x[2])
            if fwd:
                nexts = tuple(substitute(x, fwd, self.opts) for x in nexts)
                body_eff = list(substitute(tuple(body_eff), fwd, self.opts))
                if cond is not None:
                    cond = substitute(cond, fwd, self.opts)
        if kind == 'for' and not carried and not s.orelse and not pending_folded and len(body_eff) == 1 and body_eff[0][0] == 'yield' \
                and not self.has_jump(s.body) and (it[0] != 'range' or (it[1] == C(0) and it[3] == C(1))):
            y_ = body_eff[0]
            d_ = self.lam_depth + 1

            def to_bv_(t):
                t = shift_binders(t, d_, 1)
                if it[0] == 'range':
                    return substitute(t, {itsym(): ('bv', d_, 0, 'num')}, self.opts)

                def rec(x):
                    if type(x) is not tuple or not x:
                        return x
                    if x[0] == 'it' and len(x) > 1 and x[1] == L:
                        return ('bv', d_, 0) + tuple(x[2:])
                    return tuple(rec(y) if type(y) is tuple else y for y in x)
                return substitute(rec(t), {}, self.opts)
            if not mentions(y_[1], lambda x: x[0] in ('phi', 'after', 'cnt') and len(x) > 1 and x[1] == L) and y_[1] != ('sent',):
                effects.append(('yieldfrom', mk_comp('list', d_, to_bv_(y_[1]), ((it, ()),))))
                for v in assigned:
                    if v in env2 and v not in tn:
                        env[v] = ('afterlocal', L, env2[v])
                if self.nloops == L:
                    self.nloops -= 1
                return
        if kind == 'for' and not carried and not body_eff and not s.orelse and pending_folded and not self.has_flow_escape(s.body):
            # nothing is left of the loop: no effect is emitted
            for v in assigned:
                if v not in pending_folded and v in env2 and v not in tn:
                    env[v] = ('afterlocal', L, env2[v])
            for v, t_ in pending_folded.items():
                env[v] = t_
            if self.nloops == L:
                self.nloops -= 1
            return
        else_eff = []
        # after the loop
        for rank, v in enumerate(carried):
            env[v] = ('after', L, rank) + ksuf(inits[rank])
        for v in assigned:
            if v not in carried and v in env2 and v not in tn:
                env[v] = ('afterlocal', L, env2[v])
        if kind == 'for':
            for v in tn:
                if v in env2:
                    env[v] = ('afterit', L, v if False else 0)
        for v, t_ in pending_folded.items():
            env[v] = t_
        if s.orelse:
            def own_break(n_):
                if isinstance(n_, ast.Break):
                    return True
                if isinstance(n_, (ast.For, ast.While, ast.FunctionDef, ast.Lambda, ast.ClassDef)):
                    return any(own_break(c_) for c_ in getattr(n_, 'orelse', []) ) if isinstance(n_, (ast.For, ast.While)) else False
                return any(own_break(c_) for c_ in ast.iter_child_nodes(n_))
            if any(own_break(st_) for st_ in s.body):
                # the else clause runs only when the loop was not left by break: what it binds is conditional after the loop
                env_e = dict(env)
                al_e = dict(self.aliases)
                t_e = self.exec_block(s.orelse, env_e, else_eff)
                self.aliases = al_e
                if not t_e:
                    brk = ('broke', L)
                    for v in sorted(set(env) | set(env_e)):
                        a_, b_ = env.get(v, ('unbound', '?')), env_e.get(v, ('unbound', '?'))
                        if a_ != b_:
                            env[v] = mk_ite(brk, a_, b_)
            else:
                self.exec_block(s.orelse, env, else_eff)
        if kind == 'for':
            effects.append(('for', L, it, inits, nexts, tuple(body_eff), tuple(else_eff)))
        else:
            effects.append(('while', L, cond, inits, nexts, tuple(body_eff), tuple(else_eff)))

    def after_attr_forward(self, pool):
        out = {}
        for x in walk(pool):
            if x[0] == 'attr' and x[1][0] == 'after' and (x[1][1], x[1][2]) in self.loop_W:
                w2, init2 = self.loop_W[(x[1][1], x[1][2])]
                if w2 is not None and x[2] not in w2:
                    out[x] = get_attr(init2, x[2])
        return out

    @staticmethod
    def _fresh_names(fdef, params):
        """local names that only ever hold objects made by this function (numbers, strings, displays, comprehensions, results of
        operators and of plain function calls, slices) and that are never given a second name or put into a container: nobody
        else can see such an object, so updating it in place and rebinding the name to the updated value are the same thing"""
        def fresh(v):
            if isinstance(v, (ast.Constant, ast.List, ast.Tuple, ast.Dict, ast.Set, ast.ListComp, ast.SetComp, ast.DictComp,
                              ast.BinOp, ast.UnaryOp, ast.Compare, ast.JoinedStr, ast.BoolOp)) and not isinstance(v, ast.BoolOp):
                return True
            if isinstance(v, ast.Call) and isinstance(v.func, ast.Name):
                return True          # plain functions and constructors hand out new (or immutable) objects
            if isinstance(v, ast.Subscript) and isinstance(v.slice, ast.Slice):
                return True
            if isinstance(v, ast.IfExp):
                return fresh(v.body) and fresh(v.orelse)
            if isinstance(v, ast.Name) and v.id.startswith('_inl') and v.id in inl_fresh:
                return True          # the single-use temporary the helper inliner makes for a returned value
            return False
        inl_fresh = set()
        for x in ast.walk(fdef):
            if isinstance(x, ast.Assign) and len(x.targets) == 1 and isinstance(x.targets[0], ast.Name) and x.targets[0].id.startswith('_inl') \
                    and not isinstance(x.value, ast.Name) and fresh(x.value):
                inl_fresh.add(x.targets[0].id)
        good, bad = set(), set()

        def visit(n, top=True):
            for c in ast.iter_child_nodes(n):
                if isinstance(c, (ast.FunctionDef, ast.Lambda, ast.ClassDef)):
                    for x in ast.walk(c):
                        if isinstance(x, ast.Name):
                            bad.add(x.id)          # anything a nested function touches is not tracked
                    continue
                if isinstance(c, ast.Assign):
                    for t in c.targets:
                        if isinstance(t, ast.Name):
                            (good if fresh(c.value) else bad).add(t.id)
                        else:
                            for x in ast.walk(t):
                                if isinstance(x, ast.Name) and isinstance(x.ctx, ast.Store):
                                    bad.add(x.id)
                    # the value side: a bare name that is stored / aliased / put into a display escapes
                    for x in Purity_ways(c.value):
                        if not (x.startswith('_inl') and isinstance(c.value, ast.Name)):
                            bad.add(x)
                elif isinstance(c, (ast.For, ast.comprehension)):
                    for x in ast.walk(c.target):
                        if isinstance(x, ast.Name):
                            bad.add(x.id)
                elif isinstance(c, (ast.With, ast.ExceptHandler, ast.NamedExpr, ast.AnnAssign, ast.Global, ast.Nonlocal, ast.Import, ast.ImportFrom)):
                    for x in ast.walk(c):
                        if isinstance(x, ast.Name) and isinstance(x.ctx, ast.Store):
                            bad.add(x.id)
                        if isinstance(c, (ast.Global, ast.Nonlocal)):
                            bad.update(c.names)
                elif isinstance(c, (ast.Return, ast.Yield, ast.YieldFrom)) and c.value is not None:
                    pass                   # handing the object out at the end is not a second name inside this function
                elif isinstance(c, ast.Call):
                    if isinstance(c.func, ast.Attribute) and c.func.attr in ('append', 'extend', 'insert', 'add', 'update', 'setdefault', 'push'):
                        for a_ in c.args:
                            for x in Purity_ways(a_):
                                bad.add(x)         # container.append(x): the container now also holds x
                visit(c, False)
        visit(fdef)
        return (good - bad) - set(params)

    def _check_closure(self, fn):
        """A nested function / lambda reads the variables of the enclosing function when it is CALLED.  The summary made here
        uses their values at the definition, which is only right for variables that never change: refuse the others."""
        params = {a.arg for a in fn.args.posonlyargs + fn.args.args + fn.args.kwonlyargs}
        body = fn.body if isinstance(fn.body, list) else [fn.body]
        bound, free = set(params), set()
        for st in body:
            for n in ast.walk(st):
                if isinstance(n, ast.Name):
                    (bound if isinstance(n.ctx, (ast.Store, ast.Del)) else free).add(n.id)
                elif isinstance(n, ast.arg):
                    bound.add(n.arg)
        for v in sorted(free - bound):
            if self.bind_count.get(v, 0) > 1:
                raise Refused('closure over %r, which the enclosing function rebinds' % v, fn)
            if v in self.inplace_updated_objs:
                # the object is updated in place by the enclosing function: fine when the nested function only reads attributes
                # that are never stored there
                w_ = self.obj_writes.get(v, {'*'})
                reads_ = set()
                for st in body:
                    for n in ast.walk(st):
                        if isinstance(n, ast.Attribute) and isinstance(n.value, ast.Name) and n.value.id == v:
                            reads_.add(n.attr)
                    nbare_ = sum(1 for n in ast.walk(st) if isinstance(n, ast.Name) and n.id == v)
                    nattr_ = sum(1 for n in ast.walk(st) if isinstance(n, ast.Attribute) and isinstance(n.value, ast.Name) and n.value.id == v)
                    if nbare_ != nattr_:
                        reads_.add('*')
                if '*' in w_ or '*' in reads_ or (reads_ & w_):
                    raise Refused('closure over %r, which the enclosing function updates in place' % v, fn)
        cw = self._captured_writes(fn)
        if cw:
            raise Refused('nested function updates %s of the enclosing function' % ', '.join(cw), fn)

    def _captured_writes(self, fn):
        """names of the enclosing scope that the nested function / lambda updates in place (x.append, x[i] = .., x.a = .., writing calls)"""
        params = {a.arg for a in fn.args.posonlyargs + fn.args.args + fn.args.kwonlyargs}
        if fn.args.vararg:
            params.add(fn.args.vararg.arg)
        if fn.args.kwarg:
            params.add(fn.args.kwarg.arg)
        body = fn.body if isinstance(fn.body, list) else [ast.Expr(value=fn.body)]
        bound, upd = set(), set()
        for st in body:
            for n in ast.walk(st):
                if isinstance(n, ast.Name) and isinstance(n.ctx, (ast.Store, ast.Del)):
                    bound.add(n.id)
                elif isinstance(n, ast.Nonlocal):
                    raise Unsupported('nonlocal', n)
                tg = None
                if isinstance(n, (ast.Subscript, ast.Attribute)) and isinstance(n.ctx, (ast.Store, ast.Del)):
                    tg = n.value
                elif isinstance(n, ast.Call) and isinstance(n.func, ast.Attribute) and (n.func.attr in MUTATORS or self._writing(n.func.attr)):
                    tg = n.func.value
                while isinstance(tg, (ast.Subscript, ast.Attribute)):
                    tg = tg.value
                if isinstance(tg, ast.Name):
                    upd.add(tg.id)
                if isinstance(n, ast.Call):
                    upd.update(self._written_args(n))
                    if isinstance(n.func, ast.Name) and n.func.id in self.local_writers:
                        upd.update(self.local_writers[n.func.id])
        return sorted(upd - params - bound)

    def exec_funcdef(self, s, env, effects):
        if self.module_mode:
            env[s.name] = ('g', s.name)
            return False
        self._check_closure(s)
        body = [x for x in s.body if not (isinstance(x, ast.Expr) and isinstance(x.value, ast.Constant))]
        if len(body) == 1 and isinstance(body[0], ast.Return) and body[0].value is not None and not s.decorator_list \
                and not s.args.vararg and not s.args.kwarg and not s.args.kwonlyargs \
                and not any(isinstance(n, (ast.Yield, ast.YieldFrom, ast.Await)) for n in ast.walk(body[0])):
            # def f(a): return e   is   f = lambda a: e
            lam = ast.copy_location(ast.Lambda(args=s.args, body=body[0].value), s)
            ast.fix_missing_locations(lam)
            env[s.name] = self.ev(lam, env)
            return False
        sub = PE(self.resolve_global, self.global_values, self.unroll, self.opts, self.inline, self.call_hook)
        sub.closures = self.closures + [env]
        sub.lam_depth = self.lam_depth + 20
        sub.purity = self.purity
        sm = sub.run_function(s)
        k = len(self.sm.funcs)
        self.sm.funcs.append(sm)
        self.sm.undefined.extend(sm.undefined)
        env[s.name] = ('lfn', k)
        self.local_fdefs[k] = s
        effects.append(('def', k, sm.term()))
        return False

    def exec_with(self, s, env, effects):
        """with E as x: body  - the context manager is entered, the body runs, the manager is left on every way out: kept as a
        `with` node around the body's effects (no normal form looks inside the protocol calls)"""
        ctxs = []
        for item in s.items:
            c = self.ev(item.context_expr, env)
            ctxs.append(c)
            if item.optional_vars is not None:
                self.bind_target(item.optional_vars, ('call', ('attr', c, '__enter__'), (), ()), env)
        body_eff = []
        t = self.exec_block(s.body, env, body_eff)
        effects.append(('with', tuple(ctxs), tuple(body_eff)))
        return t

    def _read_first_outside(self, trystmt, inside):
        """names whose value as left by the try body may be READ outside it: in some region (each handler; else + finally + the
        rest of the function) the first occurrence in evaluation order is a load"""
        def occ(n):
            """(name, is_load) in evaluation order"""
            if isinstance(n, ast.Name):
                yield (n.id, isinstance(n.ctx, ast.Load))
                return
            if isinstance(n, ast.Assign):
                yield from occ(n.value)
                for t in n.targets:
                    yield from occ(t)
                return
            if isinstance(n, ast.AugAssign):
                if isinstance(n.target, ast.Name):
                    yield (n.target.id, True)
                yield from occ(n.value)
                yield from occ(n.target)
                return
            if isinstance(n, (ast.For, ast.comprehension)):
                yield from occ(n.iter)
                yield from occ(n.target)
                for c in (n.body + n.orelse if isinstance(n, ast.For) else n.ifs):
                    yield from occ(c)
                return
            if isinstance(n, (ast.ListComp, ast.SetComp, ast.GeneratorExp, ast.DictComp)):
                for g in n.generators:
                    yield from occ(g)
                for e in ([n.key, n.value] if isinstance(n, ast.DictComp) else [n.elt]):
                    yield from occ(e)
                return
            for c in ast.iter_child_nodes(n):
                yield from occ(c)
        regions = [list(h.body) for h in trystmt.handlers]
        rest = list(trystmt.orelse) + list(trystmt.finalbody)
        # everything of the function that follows the try statement (approximated by source position)
        end = (getattr(trystmt, 'end_lineno', 0), getattr(trystmt, 'end_col_offset', 0))
        later = [x for x in ast.walk(self.cur_fdef) if isinstance(x, ast.stmt) and id(x) not in inside
                 and (getattr(x, 'lineno', 0), getattr(x, 'col_offset', 0)) >= end]
        # a loop around the try statement brings control back to code before it: be conservative there
        looped = any(isinstance(x, (ast.For, ast.While)) and any(y is trystmt for y in ast.walk(x)) for x in ast.walk(self.cur_fdef))
        if looped:
            return {x.id for x in ast.walk(self.cur_fdef) if isinstance(x, ast.Name) and isinstance(x.ctx, ast.Load) and id(x) not in inside}
        top_later = [x for x in later if not any(x is not y and any(z is x for z in ast.walk(y)) for y in later)]
        regions.append(rest + top_later)
        out = set()
        for reg in regions:
            first = {}
            for st in reg:
                for name, is_load in occ(st):
                    first.setdefault(name, is_load)
            out |= {n for n, ld in first.items() if ld}
        return out

    def exec_try(self, s, env, effects):
        self.ntry += 1
        T = self.ntry
        pre = dict(env)
        eb = dict(env)
        fb = []
        # a handler may run after any prefix of the body: the order in which the body binds names (relative to what may
        # raise) is part of the statement, so the bindings made by each body statement are recorded in order
        trace = []
        tb = False
        inside_ = {id(x_) for st_ in s.body for x_ in ast.walk(st_)}
        seen_outside_ = self._read_first_outside(s, inside_) if self.cur_fdef is not None else None
        for i_, st_ in enumerate(s.body):
            before_ = dict(eb)
            nfb_ = len(fb)
            tb = self.exec_block([st_], eb, fb)
            delta_ = tuple(sorted(((k_, v_) for k_, v_ in eb.items() if before_.get(k_) != v_
                                   and (seen_outside_ is None or k_ in seen_outside_)),       # names nobody outside the body mentions are its own
                                  key=lambda kv: skey(kv[1])))
            if delta_:
                trace.append(('bind', tuple(v_ for _, v_ in delta_), C(nfb_)))       # what is bound, after how many effects
            if tb:
                break
        if not tb and s.orelse:
            tb = self.exec_block(s.orelse, eb, fb)
        branches = [(None, eb, fb, tb)]
        for h in s.handlers:
            eh = dict(pre)
            # anything the body may have assigned is uncertain in a handler
            for v in self.assigned_names(s.body):
                if eb.get(v) != pre.get(v):
                    eh[v] = ('tryany', T, 1 if v not in pre else 0, pre.get(v, ('unbound', '?')), eb.get(v, ('unbound', '?')))
            if h.name:
                eh[h.name] = ('exc', T)
            fh = []
            typ = NONE if h.type is None else self.ev(h.type, pre)
            th = self.exec_block(h.body, eh, fh)
            branches.append((typ, eh, fh, th))
        live = [b for b in branches if not b[3]]
        keys = set()
        for b in live:
            keys |= set(b[1])
        if live:
            for k in keys:
                vals = [b[1].get(k, ('unbound', '?')) for b in live]
                if all(v == vals[0] for v in vals):
                    env[k] = vals[0]
                else:
                    env[k] = ('tryphi', T, tuple(vals))
            for k in list(env):
                if k not in keys:
                    del env[k]
        if s.handlers and trace:
            fb = fb + [('trace', tuple(trace))]
        effects.append(('try', T, tuple(fb), tuple((b[0], tuple(b[2])) for b in branches[1:])))
        term = not live
        if s.finalbody:
            t2 = self.exec_block(s.finalbody, env, effects)
            term = term or t2
        return term

    # -- entry points -------------------------------------------------------------
    def run_function(self, fdef, args=None, kwargs=None, self_term=None, extra_env=None):
        """Summarise a FunctionDef.  args: positional terms (default: one symbol per parameter)."""
        a = fdef.args
        names = [x.arg for x in a.posonlyargs + a.args]
        env = {}
        self.roots = {}
        defaults = [None] * (len(names) - len(a.defaults)) + list(a.defaults)
        args = list(args or [])
        kwargs = dict(kwargs or {})
        if self_term is not None and names and names[0] == 'self' and len(args) < len(names):
            args = [self_term] + args
        for i, nm in enumerate(names):
            if i < len(args) and args[i] is not None:
                env[nm] = args[i]
            elif nm in kwargs:
                env[nm] = kwargs.pop(nm)
            elif extra_env and nm in extra_env:
                env[nm] = extra_env[nm]
            else:
                env[nm] = ('arg', i)
            self.roots[nm] = env[nm]
        for x in a.kwonlyargs:
            env[x.arg] = kwargs.pop(x.arg, ('sym', x.arg))
            self.roots[x.arg] = env[x.arg]
        if a.vararg:
            env[a.vararg.arg] = ('sym', '*' + a.vararg.arg)
        if a.kwarg:
            if kwargs:
                env[a.kwarg.arg] = ('dict', tuple((C(k), v) for k, v in sorted(kwargs.items())))
            else:
                env[a.kwarg.arg] = ('sym', '**' + a.kwarg.arg)
        self.sm.params = names
        self.param_defaults = {nm: d for nm, d in zip(names, defaults)}
        # signature: parameter names, default values (folded), *args/**kwargs, keyword-only parameters
        dterms = []
        for nm, d in zip(names, defaults):
            if d is not None:
                try:
                    dterms.append(('dflt', nm, self.ev(d, {})))
                except Unsupported:
                    dterms.append(('dflt', nm, ('sym', 'default?')))
        kwo = []
        for x, d in zip(a.kwonlyargs, a.kw_defaults):
            kwo.append(('kwonly', x.arg, NONE if d is None else self.ev(d, {})))
        self.sm.sig = ('sig', tuple(C(n) for n in names), tuple(dterms), C(bool(a.vararg)), C(bool(a.kwarg)), tuple(kwo))
        # local names through which an object is updated in place (x[i] = v, x.a = v, x.append(v)): if such a name is bound
        # to an attribute place (x = self.a.b) it is treated as a view of that place
        self.inplace_updated = set()
        for n_ in ast.walk(fdef):
            tg_ = None
            if isinstance(n_, (ast.Subscript, ast.Attribute)) and isinstance(n_.ctx, (ast.Store, ast.Del)):
                tg_ = n_.value
            elif isinstance(n_, ast.Call) and isinstance(n_.func, ast.Attribute) and (n_.func.attr in MUTATORS or self._writing(n_.func.attr)):
                tg_ = n_.func.value
            while isinstance(tg_, ast.Subscript):
                tg_ = tg_.value
            if isinstance(tg_, ast.Name):
                self.inplace_updated.add(tg_.id)
            if isinstance(n_, ast.Call) and isinstance(n_.func, ast.Name):
                self.inplace_updated.add(n_.func.id)       # a local that is called: m = self.method keeps naming that method
            if isinstance(n_, ast.Call):
                self.inplace_updated.update(self._written_args(n_))
            if isinstance(n_, ast.AugAssign) and isinstance(n_.target, ast.Name) and isinstance(n_.op, (ast.Add, ast.Mult, ast.BitOr, ast.BitAnd, ast.Sub, ast.BitXor)):
                self.inplace_updated.add(n_.target.id)       # x += [..] extends the list x names, for every name of that list
        # y = x (a plain copy of the reference) with y updated in place: x names an object that is updated in place too
        copies_ = [(n_.targets[0].id, n_.value.id) for n_ in ast.walk(fdef)
                   if isinstance(n_, ast.Assign) and len(n_.targets) == 1 and isinstance(n_.targets[0], ast.Name) and isinstance(n_.value, ast.Name)]
        for _ in range(4):
            more_ = {b_ for a_, b_ in copies_ if a_ in self.inplace_updated} - self.inplace_updated
            if not more_:
                break
            self.inplace_updated |= more_
        self.bind_count = {}
        self.inplace_updated_objs = set()
        self.obj_writes = {}
        self.cur_fdef = fdef
        self.partial_ops = []
        self.self_name = names[0] if (names and self.self_class is not None) else None

        def count_(n_, top=True):
            for c_ in ast.iter_child_nodes(n_):
                if isinstance(c_, (ast.FunctionDef, ast.Lambda, ast.ClassDef)):
                    if isinstance(c_, ast.FunctionDef):
                        self.bind_count[c_.name] = self.bind_count.get(c_.name, 0) + 1
                    continue
                if isinstance(c_, ast.Name) and isinstance(c_.ctx, (ast.Store, ast.Del)):
                    self.bind_count[c_.id] = self.bind_count.get(c_.id, 0) + 1
                if isinstance(c_, (ast.For, ast.While, ast.comprehension)):
                    for x_ in ast.walk(c_):      # bound again on every iteration
                        if isinstance(x_, ast.Name) and isinstance(x_.ctx, ast.Store):
                            self.bind_count[x_.id] = self.bind_count.get(x_.id, 0) + 1
                tg_ = None
                if isinstance(c_, (ast.Subscript, ast.Attribute)) and isinstance(c_.ctx, (ast.Store, ast.Del)):
                    tg_ = c_.value
                elif isinstance(c_, ast.Call) and isinstance(c_.func, ast.Attribute) and (c_.func.attr in MUTATORS or self._writing(c_.func.attr)):
                    tg_ = c_.func.value
                first_ = None
                while isinstance(tg_, (ast.Subscript, ast.Attribute)):
                    first_ = tg_.attr if isinstance(tg_, ast.Attribute) else (None if isinstance(tg_.value, ast.Name) else first_)
                    tg_ = tg_.value
                if isinstance(tg_, ast.Name):
                    self.inplace_updated_objs.add(tg_.id)
                    ws_ = self.obj_writes.setdefault(tg_.id, set())
                    if isinstance(c_, ast.Call) and first_ is None:
                        aw_ = self.purity.attrs_written(c_.func.attr) if self.purity is not None else None
                        ws_.update(aw_ if aw_ is not None else {'*'})
                    elif isinstance(c_, ast.Attribute) and first_ is None:
                        ws_.add(c_.attr)
                    else:
                        ws_.add(first_ if first_ is not None else '*')
                if isinstance(c_, ast.Call):
                    for r_ in self._written_args(c_):
                        self.inplace_updated_objs.add(r_)
                        self.obj_writes.setdefault(r_, set()).add('*')
                count_(c_, False)
        count_(fdef)
        self.fresh_names = self._fresh_names(fdef, set(names))
        for a_ in names:
            self.bind_count[a_] = self.bind_count.get(a_, 0) + 1
        effects = self.sm.effects
        t = self.exec_block(fdef.body, env, effects)
        if not t:
            effects.append(('exit', 'end', NONE, self.roots_state(env)))
        for _ in range(3):
            fa_ = self.after_attr_forward(tuple(effects))
            if not fa_:
                break
            effects[:] = list(substitute(tuple(effects), fa_, self.opts))
        effects[:] = self.tidy(effects)
        # a nested function whose every use was a call written out above is no longer mentioned: its definition has no effect
        if any(x[0] == 'def' for e in effects for x in walk(e)):
            used = {x[1] for e in effects for x in walk(e) if x[0] == 'lfn'}

            def strip(t):
                if type(t) is not tuple or not t:
                    return t
                if t and all(type(x) is tuple and x and type(x[0]) is str for x in t) and any(x[0] == 'def' for x in t):
                    t = tuple(x for x in t if not (x[0] == 'def' and len(x) == 3 and x[1] not in used))
                return tuple(strip(x) for x in t)
            effects[:] = list(strip(tuple(effects)))
            effects[:] = self.tidy(effects)
        self.sm.env = env
        self.sm.nloops = self.nloops
        return self.sm

    def run_block(self, stmts, env=None):
        self.roots = {}
        env = {} if env is None else env
        effects = self.sm.effects
        self.exec_block(stmts, env, effects)
        self.sm.env = env
        return self.sm


def effects_value(effs):
    """The value a pure function returns, if its summary is a tree of `if` nodes ending in effect-free returns."""
    effs = [e for e in effs if not (e[0] == 'assert' and False)]
    if len(effs) != 1:
        return None
    e = effs[0]
    if e[0] == 'exit' and e[1] == 'return' and not e[3]:
        return e[2]
    if e[0] == 'if':
        a, b = effects_value(list(e[2])), effects_value(list(e[3]))
        if a is not None and b is not None:
            return mk_ite(e[1], a, b)
    return None


def substitute(t, sub, opts=None):
    """Replace symbols by terms and re-normalise."""
    memo = {}

    def rec(t):
        if type(t) is not tuple or not t:
            return t
        r = sub.get(t)
        if r is not None:
            return r
        k = id(t)
        if k in memo and memo[k][0] is t:
            return memo[k][1]
        tag = t[0]
        if tag in ('c', 'sym', 'arg', 'g', 'b', 'p', 'phi', 'it', 'bv', 'cnt', 'lfn', 'undef', 'after', 'unbound', 'sent', 'exc'):
            out = t
        elif tag == 'hoist':
            out = ('hoist', rec(t[1]))
        elif tag in ('+', '-', '*', '//', '/', '%', '**', '<<', '>>', '&', '|', '^', '@'):
            items = [rec(x) for x in t[1]]
            acc = items[0]
            for x in items[1:]:
                acc = mk_bin(tag, acc, x, opts)
            out = acc
        elif tag == 'rangelen':
            out = mk_rangelen(rec(t[1]))
        elif tag == 'cmp':
            out = mk_cmp(t[1], rec(t[2]), rec(t[3]))
        elif tag == 'not':
            out = mk_not(rec(t[1]))
        elif tag in ('and', 'or'):
            out = mk_bool(tag, [rec(x) for x in t[1]])
        elif tag == 'ite':
            out = mk_ite(rec(t[1]), rec(t[2]), rec(t[3]))
        elif tag == 'idx':
            out = get_idx(rec(t[1]), rec(t[2]))
        elif tag == 'attr':
            out = get_attr(rec(t[1]), t[2])
        elif tag == 'call':
            f_ = t[1]
            if sub.get(f_) is not None:
                f2 = sub[f_]
            elif f_[0] == 'attr':
                # the receiver of a method call keeps its pending stores (get_attr would look through them)
                rx = rec(f_[1])
                g_ = get_attr(rx, f_[2])
                f2 = g_ if not (g_[0] == 'attr' and g_[2] == f_[2]) else ('attr', rx, f_[2])
            else:
                f2 = rec(f_)
            out = ('call', f2, tuple(rec(x) for x in t[2]), tuple(('kw', k[1], rec(k[2])) for k in t[3]))
        else:
            out = tuple(rec(x) if type(x) is tuple else x for x in t)
            if tag == 'tuple' and len(out) == 2 and out[1] and all(concrete(x) for x in out[1]):
                out = ('list', out[1])          # a tuple of constants has the canonical form of the literal (see ev_Tuple)
        memo[k] = (t, out)
        return out
    return rec(t)


# ---------------------------------------------------------------------------
# pretty printing and structural diff
# ---------------------------------------------------------------------------
def show(t, depth=0, limit=400):
    s = _show(t, depth)
    if len(s) > limit:
        s = s[:limit] + '...'
    return s


def _show(t, d=0):
    if type(t) is not tuple or not t:
        return repr(t)
    if d > 12:
        return '<...>'
    tag = t[0]
    if type(tag) is not str:
        return '<' + ', '.join(_show(x, d + 1) for x in t) + '>'
    if tag == 'c':
        v = t[1]
        if isinstance(v, int) and not isinstance(v, bool) and abs(v) > 255:
            return hex(v)
        return repr(v)
    if tag in ('sym', 'g', 'b', 'undef'):
        return str(t[1])
    if tag == 'arg':
        return 'arg%d' % t[1]
    if tag == 'p':
        return 'p%d_%d' % (t[1], t[2])
    if tag == 'phi':
        return 'phi%d.%d' % (t[1], t[2])
    if tag == 'after':
        return 'after%d.%d' % (t[1], t[2])
    if tag == 'rangelen':
        return 'max(0, %s)' % _show(t[1], d + 1)
    if tag == 'cnt':
        return 'cnt%d' % t[1]
    if tag == 'it':
        return 'it%d%s' % (t[1], ''.join('.%d' % x for x in t[2:] if type(x) is int))
    if tag == 'bv':
        return 'bv%d_%d%s' % (t[1], t[2], ''.join('.%d' % x for x in t[3:] if type(x) is int))
    if tag in ('+', '-', '*', '//', '/', '%', '**', '<<', '>>', '&', '|', '^'):
        return '(' + (' %s ' % tag).join(_show(x, d + 1) for x in t[1]) + ')'
    if tag == 'cmp':
        return '(%s %s %s)' % (_show(t[2], d + 1), t[1], _show(t[3], d + 1))
    if tag in ('and', 'or'):
        return '(' + (' %s ' % tag).join(_show(x, d + 1) for x in t[1]) + ')'
    if tag == 'not':
        return 'not ' + _show(t[1], d + 1)
    if tag == 'neg':
        return '-' + _show(t[1], d + 1)
    if tag == 'inv':
        return '~' + _show(t[1], d + 1)
    if tag == 'ite':
        return '(%s if %s else %s)' % (_show(t[2], d + 1), _show(t[1], d + 1), _show(t[3], d + 1))
    if tag == 'idx':
        return '%s[%s]' % (_show(t[1], d + 1), _show(t[2], d + 1))
    if tag == 'slice':
        f = lambda x: '' if x == NONE else _show(x, d + 1)
        return '%s:%s%s' % (f(t[1]), f(t[2]), '' if t[3] == NONE else ':' + f(t[3]))
    if tag == 'attr':
        return '%s.%s' % (_show(t[1], d + 1), t[2])
    if tag == 'call':
        a = [_show(x, d + 1) for x in t[2]] + ['%s=%s' % (k[1], _show(k[2], d + 1)) for k in t[3]]
        return '%s(%s)' % (_show(t[1], d + 1), ', '.join(a))
    if tag in ('list', 'tuple', 'set'):
        o, c = {'list': '[]', 'tuple': '()', 'set': '{}'}[tag]
        items = t[1]
        if len(items) > 12:
            return o + ', '.join(_show(x, d + 1) for x in items[:10]) + ', ...(%d)' % len(items) + c
        return o + ', '.join(_show(x, d + 1) for x in items) + c
    if tag == 'dict':
        return '{' + ', '.join('%s: %s' % (_show(k, d + 1), _show(v, d + 1)) for k, v in t[1][:8]) + '}'
    if tag == 'range':
        return 'range(%s, %s, %s)' % tuple(_show(x, d + 1) for x in t[1:4])
    if tag == 'obj':
        return '%s{%s}' % (_show(t[1], d + 1), ', '.join('%s=%s' % (a[1], _show(a[2], d + 1)) for a in t[2]))
    if tag == 'upd':
        return '%s{%s}' % (_show(t[1], d + 1), ', '.join('[%s]=%s' % (_show(k, d + 1), _show(v, d + 1)) for k, v in t[2]))
    if tag == 'lam':
        return 'lambda/%d: %s' % (t[1], _show(t[3], d + 1))
    return tag + '(' + ', '.join(_show(x, d + 1) if type(x) is tuple else repr(x) for x in t[1:]) + ')'


def diff(a, b, path='', out=None, limit=4):
    """First few structural differences between two terms: [(path, a_sub, b_sub)]."""
    if out is None:
        out = []
    if len(out) >= limit or a == b:
        return out
    if type(a) is not tuple or type(b) is not tuple or not a or not b:
        out.append((path, a, b))
        return out
    if a[0] != b[0] or len(a) != len(b) or a[0] in ('c', 'sym', 'arg', 'g', 'b', 'p', 'phi', 'it', 'bv', 'after'):
        out.append((path, a, b))
        return out
    n0 = len(out)
    for i in range(1, len(a)):
        x, y = a[i], b[i]
        if x == y:
            continue
        if type(x) is tuple and type(y) is tuple:
            if x and y and type(x[0]) is str and type(y[0]) is str:
                diff(x, y, path + '/%s.%d' % (a[0], i), out, limit)
            elif len(x) == len(y):
                for j, (p, q) in enumerate(zip(x, y)):
                    if p != q:
                        diff(p, q, path + '/%s.%d[%d]' % (a[0], i, j), out, limit)
            else:
                out.append((path + '/%s.%d' % (a[0], i), x, y))
        else:
            out.append((path + '/%s.%d' % (a[0], i), x, y))
        if len(out) >= limit:
            break
    if len(out) == n0:
        out.append((path, a, b))
    return out


def walk(t):
    """All sub-terms (pre-order)."""
    stack = [t]
    while stack:
        x = stack.pop()
        if type(x) is tuple:
            if x and type(x[0]) is str:
                yield x
            for y in x:
                if type(y) is tuple:
                    stack.append(y)
