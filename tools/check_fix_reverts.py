#!/venv/bin/python
"""For every recorded fix commit: reverse-apply it on a scratch copy of /repo HEAD and require the property's check to fire (exit 1)."""
import json, os, subprocess, shutil, tempfile, sys, concurrent.futures as cf
fixes = json.load(open('/verif/tools/fixes.json'))


def sh(cmd, cwd=None, env=None):
    p = subprocess.run(cmd, shell=True, cwd=cwd, env=env, capture_output=True, text=True)
    return p.returncode, p.stdout + p.stderr


def one(fx):
    commit, prop, what = fx
    wt = tempfile.mkdtemp(prefix='fr_%s_' % commit, dir='/tmp')
    try:
        sh('git -C /repo archive HEAD | tar -x -C %s' % wt)
        rc, out = sh('git -C /repo show %s | (cd %s && patch -R -p1 -s)' % (commit, wt))
        if rc:
            return commit, prop, 'REVERT-FAILED ' + out[-150:]
        rc, out = sh('/venv/bin/python -m sa.check %s --root %s' % (prop, wt), cwd='/verif')
        lines = [l for l in out.splitlines() if ': C' in l]
        return commit, prop, ('detected' if rc == 1 else 'MISSED rc=%d' % rc) + ' | ' + (lines[0][:150] if lines else out.strip().splitlines()[-1][:150])
    finally:
        shutil.rmtree(wt, ignore_errors=True)


with cf.ThreadPoolExecutor(max_workers=12) as ex:
    res = list(ex.map(one, fixes))
miss = 0
for c, p, r in res:
    print(c, p, r)
    if not r.startswith('detected'):
        miss += 1
print('missed:', miss, 'of', len(res))
