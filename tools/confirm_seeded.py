#!/venv/bin/python
"""Confirm seeded mutants: in a scratch worktree of /repo HEAD apply the patch, run the pinned suite (must stay 120 passed),
run the demo (must fail), restore, run the demo (must pass), then run the property's check on the patched tree (static, --root).
usage: confirm_seeded.py <srcdir> [ids...]   (srcdir has <id>/m<k>/{patch.diff,demo.py,meta.json})"""
import sys, os, subprocess, json, shutil, tempfile, concurrent.futures as cf
SRC = sys.argv[1]
PY = '/venv/bin/python'


def sh(cmd, cwd=None, env=None, timeout=900):
    p = subprocess.run(cmd, shell=True, cwd=cwd, env=env, capture_output=True, text=True, timeout=timeout)
    return p.returncode, (p.stdout + p.stderr)


def one(pid, k):
    d = os.path.join(SRC, pid, k)
    patch = os.path.join(d, 'patch.diff')
    demo = os.path.join(d, 'demo.py')
    if not (os.path.exists(patch) and os.path.exists(demo)):
        return pid, k, {'ok': False, 'why': 'missing files'}
    wt = tempfile.mkdtemp(prefix='sv_%s_%s_' % (pid, k), dir='/tmp')
    os.rmdir(wt)
    res = {}
    try:
        rc, out = sh('git -C /repo worktree add -q --detach %s HEAD' % wt)
        if rc:
            return pid, k, {'ok': False, 'why': 'worktree: ' + out[-200:]}
        env = dict(os.environ, PYTHONPATH=wt, PYTHONDONTWRITEBYTECODE='1')
        rc, out = sh('%s %s' % (PY, demo), cwd=wt, env=env)
        res['demo_on_original'] = 'pass' if rc == 0 else 'FAIL rc=%d %s' % (rc, out[-200:])
        rc, out = sh('git apply %s' % patch, cwd=wt)
        if rc:
            return pid, k, {'ok': False, 'why': 'patch does not apply to current HEAD: ' + out[-200:]}
        rc, out = sh('%s -m pytest -q -p no:cacheprovider --timeout=900 2>&1 | tail -3' % PY, cwd=wt, env=env)
        res['suite_on_mutant'] = out.strip().splitlines()[-1] if out.strip() else ''
        rc, out = sh('%s %s' % (PY, demo), cwd=wt, env=env)
        res['demo_on_mutant'] = 'fails (rc=%d)' % rc if rc != 0 else 'PASSES (mutant not demonstrated)'
        rc, out = sh('%s -m sa.check %s --tier quick --root %s' % (PY, pid, wt), cwd='/verif', env=dict(os.environ, SA_NO_EVIDENCE='1'))
        res['check_rc'] = rc
        lines = [l for l in out.splitlines() if ': C' in l or l.startswith('ANALYSIS')]
        res['check_report'] = (lines[0][:400] if lines else out.strip().splitlines()[-1][:300])
        res['ok'] = (res['demo_on_original'] == 'pass' and '120 passed' in res['suite_on_mutant'] and res['demo_on_mutant'].startswith('fails'))
        res['detected'] = (rc == 1)
    finally:
        sh('git -C /repo worktree remove --force %s' % wt)
        shutil.rmtree(wt, ignore_errors=True)
    return pid, k, res


jobs = []
ids = sys.argv[2:] or sorted(x for x in os.listdir(SRC) if x.startswith('C') and os.path.isdir(os.path.join(SRC, x)))
for pid in ids:
    for k in sorted(os.listdir(os.path.join(SRC, pid))):
        if k.startswith('m') and os.path.isdir(os.path.join(SRC, pid, k)):
            jobs.append((pid, k))
out = {}
with cf.ThreadPoolExecutor(max_workers=12) as ex:
    for pid, k, r in ex.map(lambda a: one(*a), jobs):
        out['%s/%s' % (pid, k)] = r
        print(pid, k, 'confirmed' if r.get('ok') else 'NOT-CONFIRMED', 'detected' if r.get('detected') else 'MISSED', r.get('why', ''), r.get('check_report', '')[:110], flush=True)
json.dump(out, open('/tmp/confirm_seeded.json', 'w'), indent=1)
