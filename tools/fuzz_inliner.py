#!/venv/bin/python
"""Soundness test of the HELPER INLINER + class-aware evaluation (not of crysp): each corpus function of fuzz_normaliser.py that
takes `self`-free arguments is turned into a method `Toy.f` of a toy class in a scratch tree; a random contiguous run of its
top-level statements is extracted into a new private method `Toy._h` (the classic "extract method" refactoring, done
mechanically and behaviour-preserving) and then ONE first-order mutation is applied INSIDE the helper.  The scratch tree is
analysed exactly like a changed crysp tree (load.Repo -> Canon -> inline.py, which has never seen `_h` -> terms.py) and
compared with the ORIGINAL function as restatement.  If the comparison accepts the mutated tree, original and mutant are
executed on generated inputs: accepted but behaving differently = the inliner (or the evaluator behind it) hid a bug.
Also counted: how often the un-mutated extraction is accepted (that is the false-alarm side of the inliner).

Executes only the toy corpus.  usage: fuzz_inliner.py [--seed S] [--max N] [--jobs J]"""
import ast, sys, os, copy, random, argparse, tempfile, shutil
import concurrent.futures as cf
sys.path.insert(0, '/verif')
sys.path.insert(0, '/verif/tools')
import fuzz_normaliser as FN      # noqa: E402
import mass_mutants as MM         # noqa: E402


def names(nodes, ctx):
    """names loaded / stored at function scope (comprehension variables are their own scope)"""
    out = []

    def visit(x, hidden):
        if isinstance(x, (ast.ListComp, ast.SetComp, ast.DictComp, ast.GeneratorExp)):
            hid = set(hidden)
            for g in x.generators:
                for t in ast.walk(g.target):
                    if isinstance(t, ast.Name):
                        hid.add(t.id)
            for c in ast.iter_child_nodes(x):
                visit(c, hid)
            return
        if isinstance(x, ast.Name) and isinstance(x.ctx, ctx) and x.id not in hidden and x.id not in out:
            out.append(x.id)
        for c in ast.iter_child_nodes(x):
            visit(c, hidden)
    for n in nodes:
        visit(n, set())
    return out


BUILTIN = set(dir(__builtins__)) | {'struct', 'reduce', 'operator'}


def extract(fsrc, lo, hi):
    """-> source of `class Toy: def f(self, ..)  def _h(self, ..)` with statements lo..hi-1 of f moved into _h, or None"""
    f = ast.parse(fsrc).body[0]
    body = f.body
    sl = body[lo:hi]
    for st in sl:
        for x in ast.walk(st):
            if isinstance(x, (ast.Return, ast.Yield, ast.YieldFrom, ast.Break, ast.Continue, ast.FunctionDef, ast.Lambda,
                              ast.Import, ast.ImportFrom, ast.Global, ast.Nonlocal, ast.Delete, ast.Try)):
                return None
    params = [a.arg for a in f.args.args]
    before = set(params) | set(names(body[:lo], ast.Store)) | {x.name for st in body[:lo] for x in ast.walk(st) if isinstance(x, ast.FunctionDef)}
    loads = [n for n in names(sl, ast.Load) if n in before]
    stores = names(sl, ast.Store)
    # a name the slice stores AND that is read later (or read in the slice before being stored there) must be returned
    after_loads = set(names(body[hi:], ast.Load))
    rets = [n for n in stores if n in after_loads]
    # names stored in the slice and loaded in the slice before the store need their old value: pass them in
    for n in stores:
        if n in before and n not in loads and n in names(sl, ast.Load):
            loads.append(n)
    # augmented assignment reads the old value
    for st in sl:
        for x in ast.walk(st):
            if isinstance(x, ast.AugAssign) and isinstance(x.target, ast.Name) and x.target.id in before and x.target.id not in loads:
                loads.append(x.target.id)
    if 'self' in loads or 'self' in stores:
        return None
    call = ast.Call(func=ast.Attribute(value=ast.Name(id='self', ctx=ast.Load()), attr='_h', ctx=ast.Load()),
                    args=[ast.Name(id=n, ctx=ast.Load()) for n in loads], keywords=[])
    if rets:
        tgt = ast.Name(id=rets[0], ctx=ast.Store()) if len(rets) == 1 else ast.Tuple(elts=[ast.Name(id=n, ctx=ast.Store()) for n in rets], ctx=ast.Store())
        stmt = ast.Assign(targets=[tgt], value=call)
        ret = ast.Return(value=ast.Name(id=rets[0], ctx=ast.Load()) if len(rets) == 1 else ast.Tuple(elts=[ast.Name(id=n, ctx=ast.Load()) for n in rets], ctx=ast.Load()))
        hbody = copy.deepcopy(sl) + [ret]
    else:
        stmt = ast.Expr(value=call)
        hbody = copy.deepcopy(sl)
    h = ast.FunctionDef(name='_h', args=ast.arguments(posonlyargs=[], args=[ast.arg(arg='self')] + [ast.arg(arg=n) for n in loads],
                                                      kwonlyargs=[], kw_defaults=[], defaults=[]),
                        body=hbody, decorator_list=[], returns=None, type_comment=None, type_params=[])
    f2 = copy.deepcopy(f)
    f2.args.args = [ast.arg(arg='self')] + f2.args.args
    f2.body = f2.body[:lo] + [stmt] + f2.body[hi:]
    cls = ast.ClassDef(name='Toy', bases=[], keywords=[], body=[f2, h], decorator_list=[], type_params=[])
    mod = ast.Module(body=[cls], type_ignores=[])
    ast.fix_missing_locations(mod)
    return ast.unparse(mod)


def method_source(fsrc):
    f = ast.parse(fsrc).body[0]
    f.args.args = [ast.arg(arg='self')] + f.args.args
    ast.fix_missing_locations(f)
    return ast.unparse(f)


def mutate_helper(clssrc, idx):
    mod = ast.parse(clssrc)
    h = [x for x in mod.body[0].body if x.name == '_h'][0]
    sites = MM.sites(h)
    if not sites:
        return None
    kind, node = sites[idx % len(sites)]
    MM.apply(kind, node)
    ast.fix_missing_locations(mod)
    return kind, ast.unparse(mod)


def accepts_tree(clssrc, spec_src):
    from sa.core import Ctx, equiv_mod_ite
    from sa import terms as T
    d = tempfile.mkdtemp(prefix='fi_', dir='/tmp')
    try:
        os.makedirs(d + '/crysp')
        open(d + '/crysp/__init__.py', 'w').write('')
        import inspect
        objsrc = inspect.getsource(FN.Obj).replace('class Obj(types.SimpleNamespace):', 'class Obj(object):')
        # the class of the toy objects is part of the analysed tree (closed world: property setters, method write sets)
        open(d + '/crysp/toy.py', 'w').write('import struct\nfrom functools import reduce\nimport operator\n' + objsrc + '\n' + clssrc + '\n')
        from sa import inline as _inl
        _inl.KNOWN['crysp/toy.py'] = {'functions': ['Toy.f'], 'assigns': [], 'class_assigns': []}    # `_h` is a new helper
        ctx = Ctx('C01', 'quick', 0, d)
        try:
            got = ctx.fn_term('crysp/toy.py', 'Toy.f')
            exp = ctx.spec_term(spec_src, name='f')
        except (T.Unsupported, RecursionError):
            return None
        except Exception as ex:
            return 'ERROR %s' % ex
        if got == exp:
            return 'equal terms'
        try:
            if equiv_mod_ite(got, exp):
                return 'decision trees'
        except Exception:
            pass
        for n in (8, 32):
            try:
                g2 = ctx.fn_term('crysp/toy.py', 'Toy.f', unroll=n)
                e2 = ctx.spec_term(spec_src, name='f', unroll=n)
            except (T.Unsupported, RecursionError):
                break
            if g2 == e2 or equiv_mod_ite(g2, e2):
                return 'unroll %d' % n
        return None
    finally:
        shutil.rmtree(d, ignore_errors=True)


def run_cls(clssrc, args):
    src = clssrc + '\n\ndef f(*a):\n    return Toy().f(*a)\n'
    return FN.run(src, args)


def differs(orig_f, clssrc, seed, n_inputs=200):
    params = [x.arg for x in ast.parse(orig_f).body[0].args.args]
    rng = random.Random(seed)
    for k in range(n_inputs):
        args = [FN.gen_arg(p, rng) for p in params]
        ra, rb = FN.run(orig_f, args), run_cls(clssrc, args)
        if ra[0] == ('timeout',) or rb[0] == ('timeout',):
            if ra[0] != rb[0]:
                return args, ra, rb
            continue
        if ra != rb:
            return args, ra, rb
    return None


def _always_crashes(orig_f, clssrc, seed):
    params = [x.arg for x in ast.parse(orig_f).body[0].args.args]
    rng = random.Random(seed + 1)
    for k in range(40):
        out, _ = run_cls(clssrc, [FN.gen_arg(p, rng) for p in params])
        if not (out[0] == 'exc' and out[1] in ('NameError', 'TypeError', 'UnboundLocalError', 'AttributeError')):
            return False
    return True


def work(job):
    name, lo, hi, midx, seed = job
    fsrc = FN.CORPUS[name]
    try:
        cls = extract(fsrc, lo, hi)
    except Exception as ex:
        return job, 'skip', str(ex)
    if cls is None:
        return job, 'skip', None
    spec = method_source(fsrc)
    try:
        compile(cls, '<c>', 'exec')
    except Exception:
        return job, 'skip', None
    if midx < 0:
        # the plain extraction: must behave the same (sanity of this tool) and should be accepted
        d = differs(fsrc, cls, seed, 60)
        if d is not None:
            return job, 'tool-bug', 'extraction changed behaviour\n' + cls
        why = accepts_tree(cls, spec)
        if isinstance(why, str) and why.startswith('ERROR'):
            return job, 'error', why + '\n' + cls
        return job, ('extraction accepted' if why else 'extraction reported'), (None if why else cls)
    if differs(fsrc, cls, seed, 40) is not None:
        return job, 'skip', None          # this mechanical extraction is not behaviour-preserving (unbound loop variable, ..)
    m = mutate_helper(cls, midx)
    if m is None:
        return job, 'skip', None
    kind, mcls = m
    try:
        compile(mcls, '<c>', 'exec')
    except Exception:
        return job, 'skip', None
    why = accepts_tree(mcls, spec)
    if isinstance(why, str) and why.startswith('ERROR'):
        return job, 'error', why + '\n' + mcls
    if why is None:
        return job, 'rejected', kind
    try:
        d = differs(fsrc, mcls, seed)
    except Exception as ex:
        return job, 'error', 'oracle %s' % ex
    if d is None:
        return job, 'accepted-equivalent', kind
    if FN.always_crashes(mcls + '\n\ndef f(*a):\n    return Toy().f(*a)\n', seed) if False else _always_crashes(fsrc, mcls, seed):
        return job, 'accepted-mutant-always-crashes', kind
    return job, 'UNSOUND', '%s (%s)\n%s\n--- input %r\n    original -> %r\n    mutant   -> %r' % (kind, why, mcls, d[0], d[1], d[2])


if __name__ == '__main__':
    ap = argparse.ArgumentParser()
    ap.add_argument('--seed', type=int, default=1)
    ap.add_argument('--max', type=int, default=600)
    ap.add_argument('--jobs', type=int, default=12)
    a = ap.parse_args()
    rng = random.Random(a.seed)
    jobs = []
    for name, src in FN.CORPUS.items():
        f = ast.parse(src).body[0]
        params = [x.arg for x in f.args.args]
        if 'self' in params or any(isinstance(x, (ast.Yield, ast.YieldFrom)) for x in ast.walk(f)):
            continue
        n = len(f.body)
        for lo in range(n):
            for hi in range(lo + 1, min(n, lo + 4) + (0 if lo + 4 < n else 0)):
                if hi > n - 0 and False:
                    continue
                jobs.append((name, lo, hi, -1, a.seed))
                for midx in range(6):
                    jobs.append((name, lo, hi, rng.randrange(40), a.seed))
    rng.shuffle(jobs)
    jobs = jobs[:a.max]
    print('jobs', len(jobs), flush=True)
    cnt = {}
    with cf.ProcessPoolExecutor(max_workers=a.jobs) as ex:
        for job, st, info in ex.map(work, jobs, chunksize=4):
            cnt[st] = cnt.get(st, 0) + 1
            if st in ('UNSOUND', 'error', 'tool-bug') or (st == 'extraction reported' and os.environ.get('FI_VERBOSE')):
                print('%s %s[%d:%d]#%d %s' % (st, job[0], job[1], job[2], job[3], info), flush=True)
    print(cnt)
