#!/venv/bin/python
"""Soundness test of the NORMALISER itself (not of crysp): a corpus of small self-contained functions that use the constructs the
normal forms speak about is mutated (first-order mutants + structural mutants: statement swaps, break/continue changes, alias
introduction, loop-boundary moves, variable replacement); whenever the checker's comparison would ACCEPT original and mutant as
the same computation (equal normalised terms, or equal after the unrolling / decision-tree fallbacks of rules/common.cmp_fn),
both are executed on a few hundred generated inputs.  A pair that is accepted but behaves differently is an UNSOUND normal form
and is printed; it must be fixed in sa/terms.py (or the construct refused) before the checks are trusted.

This executes only the toy corpus below, never crysp: it is quality assurance of the tool, not one of the registered checks.
usage: fuzz_normaliser.py [--seed S] [--max N] [--jobs J] [--only NAME]"""
import ast, sys, os, copy, random, argparse, signal, types, struct, traceback, itertools
import concurrent.futures as cf
sys.path.insert(0, '/verif')
sys.setrecursionlimit(4000)

CORPUS = {}


def corpus(src):
    name = 'p%02d' % len(CORPUS)
    CORPUS[name] = src.strip('\n') + '\n'


# ---- loops, accumulators, induction variables -------------------------------------------------------------------------------
corpus('''
def f(l, n):
    out = []
    i = 0
    while i < len(l):
        out.append(l[i] + n)
        i += 1
    return out
''')
corpus('''
def f(l, n):
    acc = 0
    for i, x in enumerate(l):
        acc += x << i
        if acc > 1000:
            break
    return acc
''')
corpus('''
def f(l, n):
    m = None
    im = -1
    for i in range(len(l)):
        u = n - l[i]
        if u < 0:
            continue
        if m is None or l[i] < m:
            m = l[i]
            im = i
    return m, im
''')
corpus('''
def f(l, n):
    found = -1
    for i in range(len(l)):
        if l[i] == n:
            found = i
            break
        found = -2
    else:
        found = -3
    return found
''')
corpus('''
def f(l, n):
    r = []
    for x in l:
        if x % 2:
            r.append(x)
        else:
            r.append(x // 2)
    r.reverse()
    return r
''')
corpus('''
def f(l, l2):
    out = [0] * len(l)
    for i in range(len(l)):
        out[i] = l[i] ^ (l2[i % len(l2)] if l2 else 0)
    return out
''')
corpus('''
def f(l, n):
    p = 0
    C = []
    while True:
        b = l[p:p + 3]
        if len(b) == 0:
            break
        C.append(sum(b) + p)
        p += 3
    return C, p
''')
corpus('''
def f(n, k):
    j = 0
    out = []
    for i in range(n % 20):
        out.append(j)
        j += 1
        if j == 4:
            j = 0
    return out, j
''')
corpus('''
def f(a, b):
    a = a & 0xffff
    b = b & 0xf
    x = (a << b) & 0xffff
    y = a >> (16 - b)
    return (x | y) & 0xffff, a % 16, a // 16
''')
corpus('''
def f(l, n):
    s = 0
    for r in range(3):
        for i in range(4):
            k = 4 * r + i
            if k < len(l):
                s = (s * 3 + l[k]) % 65537
    return s
''')
corpus('''
def f(l, n):
    w = list(l)
    for i in range(len(w) - 1):
        if w[i] > w[i + 1]:
            w[i], w[i + 1] = w[i + 1], w[i]
    return w, l
''')
corpus('''
def f(l, n):
    w = l
    w2 = l[:]
    if w:
        w[0] = n
    w2.append(n)
    return w2, l
''')
corpus('''
def f(l, l2):
    a = l
    a += l2
    b = l2
    b = b + [1]
    return a, b, l, l2
''')
corpus('''
def f(o, n):
    w = o.w
    for i in range(len(w)):
        w[i] = (w[i] + n) & 0xff
    o.c += 1
    return o.c
''')
corpus('''
def f(o, n):
    o.c = n
    t = o.c + 1
    o.c = t * 2
    if n > 3:
        o.d = o.c
    return o.w[0]
''')
corpus('''
def f(l, n):
    if not l:
        raise ValueError("empty")
    assert n >= 0
    l.append(n)
    if n > 10:
        raise IndexError
    return len(l)
''')
corpus('''
def f(l, n):
    l.append(n)
    assert n >= 0
    if len(l) > 4:
        return None
    l.append(n + 1)
    return l[0]
''')
corpus('''
def f(s, n):
    out = b''
    for i in range(0, len(s), 4):
        blk = s[i:i + 4]
        if len(blk) < 4:
            blk = blk + b'\\0' * (4 - len(blk))
        out += blk[::-1]
    return out
''')
corpus('''
def f(s, n):
    parts = []
    for c in s:
        parts.append('%02x' % c)
    return ''.join(parts), len(s) * 8 + n
''')
corpus('''
def f(a, b):
    q, r = divmod(a, 7)
    m = max(a, b)
    k = min(a, b, 9)
    return q, r, m, k, -a // 2, (-a) % 5, a - b * (a // b) if b else 0
''')
corpus('''
def f(a, b):
    if a < b and not (a == 3 or b == 5):
        return 1
    elif a >= b + 1:
        return 2
    elif a <= b:
        return 3
    return 4
''')
corpus('''
def f(a, b):
    x = a or b
    y = a and b
    z = not a
    t = 1 if a else 0
    return x, y, z, t, len([a] or [b, b]), bool(a)
''')
corpus('''
def f(l, n):
    def g(x, k=n):
        return x * k + 1
    return [g(x) for x in l if x != n], g(2, 3)
''')
corpus('''
def f(l, n):
    for i in range(len(l)):
        yield l[i]
        if l[i] == n:
            return
    yield -1
''')
corpus('''
def f(l, n):
    tot = 0
    try:
        for x in l:
            tot += 100 // x
    except ZeroDivisionError:
        tot = -1
    finally:
        l.append(tot)
    return tot
''')
corpus('''
def f(t, n):
    d = {}
    for k, v in t:
        if k in d:
            d[k] += v
        else:
            d[k] = v
    return sorted(d.items()), d.get(n, None)
''')
corpus('''
def f(l, n):
    i = len(l) - 1
    while i >= 0 and l[i] != n:
        i -= 1
    j = 0
    while j < len(l):
        if l[j] == n:
            break
        j += 1
    return i, j
''')
corpus('''
def f(l, n):
    res = []
    for i in reversed(range(len(l))):
        res.append(l[i] - i)
    z = list(zip(l, res))
    return res, z[:n % 5], l[::-1][:2], l[1::2]
''')
corpus('''
def f(a, b):
    v = a
    cnt = 0
    while v:
        cnt += v & 1
        v >>= 1
    m = 1
    for _ in range(b % 9):
        m <<= 1
    return cnt, m, 2 ** (b % 9)
''')
corpus('''
def f(l, n):
    best = 0
    cur = 0
    for x in l:
        if x > n:
            cur += 1
        else:
            cur = 0
        best = max(best, cur)
    return best, cur
''')
corpus('''
def f(l, n):
    H = [1, 2, 3, 4]
    for x in l:
        a, b, c, d = H
        for i in range(4):
            T = (a + (b ^ c ^ d) + x + i) & 0xff
            a = d
            d = c
            c = b
            b = T
        H[0] = (H[0] + a) & 0xff
        H[1] = (H[1] + b) & 0xff
        H[2] = (H[2] + c) & 0xff
        H[3] = (H[3] + d) & 0xff
    return H
''')
corpus('''
def f(s, n):
    import struct
    pad = b'\\x80' + b'\\0' * ((55 - len(s)) % 64)
    m = s + pad + struct.pack('<Q', len(s) * 8)
    W = list(struct.unpack('<%dL' % (len(m) // 4), m))
    return W[:3], len(m)
''')
corpus('''
def f(l, n):
    if len(l) < 2:
        return l
    h = len(l) // 2
    a = l[:h]
    b = l[h:]
    a.reverse()
    return b + a
''')
corpus('''
def f(o, l):
    for x in l:
        if x == 0:
            continue
        o.c += x
        if o.c > 300:
            o.w.append(x)
            break
    return o.c, len(o.w)
''')
corpus('''
def f(l, n):
    i = 0
    out = []
    while i < len(l):
        x = l[i]
        i += 1
        if x == n:
            continue
        out.append(x)
    return out, i
''')
corpus('''
def f(l, n):
    seen = set()
    dup = []
    for x in l:
        if x in seen:
            dup.append(x)
        seen.add(x)
    return dup, sorted(seen)
''')
corpus('''
def f(l, n):
    M = [[0] * 3 for _ in range(3)]
    for i in range(3):
        for j in range(3):
            M[i][j] = (l[(i * 3 + j) % len(l)] if l else 0) + (i == j)
    R = [[M[j][i] for j in range(3)] for i in range(3)]
    return R
''')
corpus('''
def f(a, b):
    x = a
    y = b
    x, y = y, x + y
    x += y
    y -= x
    return x, y, x * y - (x + y)
''')
corpus('''
def f(l, n):
    out = []
    for i in range(1, len(l)):
        out += [l[i] - l[i - 1]]
    tot = 0
    for i in range(len(out) - 1, -1, -1):
        tot = tot * 2 + out[i]
    return out, tot
''')
corpus('''
def f(l, flag):
    if flag:
        r = l
    else:
        r = list(l)
    r.append(7)
    return len(l), r
''')
corpus('''
def f(l, n):
    c = 0
    for i in range(len(l)):
        for j in range(i + 1, len(l)):
            if l[i] == l[j]:
                c += 1
                break
        else:
            c += 10
    return c
''')
corpus('''
def f(l, n):
    k = n % 4
    res = l[k:] + l[:k]
    res[0:1] = [9, 9] if res else []
    del res[-1:]
    return res
''')
corpus('''
def f(o, n):
    old = o.w
    o.w = [n]
    old.append(5)
    o.w.append(6)
    return old, o.w
''')
corpus('''
def f(l, n):
    x = 0
    for v in l:
        x = (x + v) & 0xffffffff
        x = ((x << 3) | (x >> 29)) & 0xffffffff
    return x ^ (x >> 16), x & 0xff, (x >> 8) & 0xff
''')


corpus('''
def f(o, n):
    t = o.bump(n)
    u = o.peek()
    o.bump(1)
    return u
''')
corpus('''
def f(o, l):
    for x in l:
        o.push(x).bump(1)
    y = o.peek()
    o.c = 0
    return y, o.peek()
''')
corpus('''
def f(l, n):
    x = l.pop() if l else 0
    l.insert(0, n)
    y = l.index(n)
    l.sort()
    return x, y
''')
corpus('''
def f(l, n):
    d = {}
    d[n] = 1
    d.setdefault(n + 1, []).append(2)
    e = d
    e[0] = 5
    k = sorted(d.keys())
    d.pop(n)
    return k, sorted(e.items(), key=repr)
''')
corpus('''
def f(l, n):
    acc = []
    def add(x):
        acc.append(x + n)
        return len(acc)
    r = [add(x) for x in l]
    add(0)
    return acc, r
''')
corpus('''
def f(l, n):
    i = 0
    while i < len(l):
        if l[i] > n:
            break
        i += 1
    else:
        i = -1
    return i
''')
corpus('''
def f(l, n):
    r = 0
    for x in l:
        try:
            if x == n:
                raise ValueError
            r += x
        except ValueError:
            r -= 1
            continue
        finally:
            r += 1000
        r += 1
    return r
''')
corpus('''
def f(s, n):
    t = s.hex()
    u = bytes.fromhex(t)
    w = int.from_bytes(s[:4], 'little') if s else 0
    v = w.to_bytes(4, 'big')
    return t.upper(), u == s, v, '%d-%s' % (n, t[:2]), '{}:{:02x}'.format(n, n & 255)
''')
corpus('''
def f(a, b):
    x = [a, b]
    y = x * 2
    z = [x] * 2
    z[0].append(1)
    y.append(2)
    return x, y, z
''')
corpus('''
def f(l, n):
    a = l[:]
    b = a
    a = a + [n]
    b.append(0)
    c = a
    c += [1]
    return a, b, c
''')
corpus('''
def f(o, n):
    w = o.w
    o.w = w + [n]
    w.append(1)
    v = o.w
    v.append(2)
    return w, o.w
''')
corpus('''
def f(l, n):
    out = []
    for i in range(len(l)):
        if i % 2 == 0:
            continue
        if l[i] == n:
            out.append(-1)
            continue
        out.append(l[i])
    return out
''')
corpus('''
def f(l, n):
    tot = 0
    k = 0
    for x in l:
        k += 1
        if x == n:
            tot += k
            break
        tot += x
    return tot, k
''')
corpus('''
def f(a, b):
    r = []
    for i in range(a % 7):
        for j in range(b % 5):
            if j > i:
                break
            r.append((i, j))
        else:
            r.append(i)
    return r
''')
corpus('''
def f(l, flag):
    g = (x * 2 for x in l)
    first = next(g, None)
    rest = list(g)
    it = iter(l)
    tot = 0
    for x in it:
        if flag:
            tot += next(it, 0)
        tot += x
    return first, rest, tot
''')
corpus('''
def f(l, n):
    m = {}
    for i, x in enumerate(l):
        m.setdefault(x % 3, []).append(i)
    ks = sorted(m)
    return [(k, m[k]) for k in ks], n in m
''')
corpus('''
def f(a, b):
    s = 0
    i = a % 10
    while i > 0:
        s += i * i
        i -= 2
    return s, i, (a ^ b) & ~b, -(-a // 4), a * 2 // 2, (a + b) % 8 == (a % 8 + b % 8) % 8
''')


corpus('''
def f(o, l):
    r = [o.bump(x) for x in l]
    s = o.peek()
    t = [o.peek() + x for x in l]
    return r, s, t
''')
corpus('''
def f(a, b):
    k = a % 5
    g = lambda x: x + k
    u = g(1)
    k = b % 7
    return u, g(2), k
''')
corpus('''
def f(l, n):
    a = sorted(l)
    b = l
    b.sort(reverse=True)
    c = l[:]
    del c[:1]
    return a, b, c, l
''')
corpus('''
def f(a, b):
    x = a % 9
    y = b % 9
    r = []
    if 2 < x < 7:
        r.append(1)
    if x < y <= 5 or not (x != 3):
        r.append(2)
    if x is None or y == 0:
        r.append(3)
    if (z := x + y) > 8:
        r.append(z)
    return r
''')
corpus('''
def f(l, n):
    a = l[-1] if l else 0
    b = l[-3:]
    c = l[:-1]
    d = l[::2]
    e = l[1:4]
    e[0:2] = [7]
    k = n % 4
    return a, b, c, d, e, l[k:k + 2], l[-k:] if k else []
''')
corpus('''
def f(l, n):
    out = []
    for i in range(len(l)):
        x = l[i]
        if x > 100:
            out.append(x - 100)
        elif x > 50:
            out.append(x)
            if x == n:
                return out
        else:
            out.insert(0, x)
    return out[::-1]
''')
corpus('''
def f(o, n):
    def step(k):
        return (k * 3 + 1) % 17
    v = n % 17
    seq = []
    while v != 1 and len(seq) < 10:
        seq.append(v)
        v = step(v)
    o.w = seq
    o.c = len(seq)
    return v
''')
corpus('''
def f(l, l2):
    n = min(len(l), len(l2))
    a = [l[i] ^ l2[i] for i in range(n)]
    b = [x ^ y for x, y in zip(l, l2)]
    c = []
    for i, (x, y) in enumerate(zip(l, l2)):
        c.append((x + y + i) & 0xff)
    return a == b, c, sum(a), max(a) if a else -1
''')
corpus('''
def f(s, n):
    out = bytearray()
    for i, c in enumerate(s):
        out.append(c ^ (n + i) & 0xff)
    res = bytes(out)
    return res, res[::-1], res + b'\\x00', len(res) == len(s)
''')
corpus('''
def f(l, n):
    i = 0
    j = len(l) - 1
    w = l[:]
    while i < j:
        w[i], w[j] = w[j], w[i]
        i += 1
        j -= 1
    return w, i, j
''')
corpus('''
def f(a, b):
    x = a & 0xffffffff
    r = []
    for k in (7, 9, 13, 18):
        x = ((x << k) | (x >> (32 - k))) & 0xffffffff
        r.append(x & 0xff)
    y = 0
    for i in range(4):
        y |= r[i] << (8 * i)
    return r, y, y.to_bytes(4, 'little')
''')
corpus('''
def f(t, n):
    best = None
    for k, v in t:
        if best is None or v > best[1] or (v == best[1] and k < best[0]):
            best = (k, v)
    total = 0
    for k, v in t:
        if k == n % 4:
            total += v
            continue
        total -= 1
    return best, total
''')


corpus('''
def f(self, s, n):
    k = n % 4 + 1
    self.c = 0
    out = []
    for b in self.blocks(s, k):
        out.append(bytes(x ^ 0x5c for x in b))
    tail = self.last(s, k)
    out.append(tail)
    return b''.join(out), self.c, self.d
''')
corpus('''
def f(self, s, n):
    H = list(self.w) if self.w else [1, 2]
    for c in s:
        t = (H[0] + c) & 0xff
        H[0] = H[-1]
        H[-1] = t ^ n & 0xff
        self.c += 1
    self.w = H
    return H[0] << 8 | H[-1]
''')
corpus('''
def f(self, l, flag):
    if flag:
        self.w = []
    buf = self.w
    for x in l:
        buf.append(x)
        if len(buf) == 3:
            self.c += sum(buf)
            del buf[:]
    return len(self.w), self.c
''')
corpus('''
def f(self, s, n):
    iv = bytes(self.w[:2]).ljust(2, b'\\x00')
    out = []
    for i in range(0, len(s), 2):
        blk = s[i:i + 2].ljust(2, b'\\x00')
        c = bytes(a ^ b for a, b in zip(blk, iv))
        out.append(c)
        iv = c
    self.w = list(iv)
    return b''.join(out)
''')
corpus('''
def f(self, l, n):
    state = self.w
    i = self.c % 7
    res = []
    for x in l:
        i = (i + 1) % 7
        state_i = state[i % len(state)] if state else 0
        res.append((x + state_i) & 0xff)
        if state:
            state[i % len(state)] = res[-1]
    self.c = i
    return res
''')


corpus('''
def f(l, n):
    from functools import reduce
    import operator
    a = reduce(lambda acc, x: (acc * 31 + x) & 0xffff, l, n & 0xff)
    b = list(map(lambda x: x ^ 0x55, l))
    c = reduce(operator.xor, l, 0)
    d = [operator.add(x, 1) for x in l]
    return a, b, c, d
''')
corpus('''
def f(l, n):
    out = []
    for i in range(len(l) - 1, -1, -1):
        out.append(l[i])
    for i in range(0, len(l), 3):
        out.append(l[i] * 2)
    for i in reversed(range(0, len(l), 2)):
        out.append(-l[i])
    return out
''')
corpus('''
def f(l, n):
    w = [0] * 8
    for i in range(8):
        w[i] = l[i % len(l)] if l else i
    for i in range(8, 12):
        w.append((w[i - 8] ^ w[i - 3] ^ i) & 0xff)
    v = n & 0xffff
    bits = []
    for _ in range(5):
        bits.append(v & 1)
        v >>= 1
    return w, bits, v
''')
corpus('''
def f(t, n):
    d = {}
    for k, v in t:
        d.setdefault(k, 0)
        d[k] = max(d[k], v)
    x = d.get(n % 4)
    y = d.get(9, -1)
    z = x or y
    return sorted(d.items()), x, y, z, (x if x is not None else 0) + 1
''')
corpus('''
def f(a, b):
    x = a % 11
    if x < 3:
        r = 'low'
    elif x < 7:
        r = 'mid' if b % 2 else 'MID'
    else:
        r = 'high'
    k = 0
    while k < 5 and (x + k) % 4 != 0:
        k += 1
    return r, k, '%s:%d' % (r, k), isinstance(x, int) and not isinstance(r, int)
''')
corpus('''
def f(s, n):
    import struct
    k = len(s) // 4
    words = list(struct.unpack('>%dL' % k, s[:4 * k])) if k else []
    tot = 0
    for w in words:
        tot = (tot + w) & 0xffffffff
    tail = s[4 * k:]
    v = int.from_bytes(tail, 'big') if tail else 0
    return struct.pack('>L', tot), v, (tot << 8 | v & 0xff) & 0xffffffff
''')
corpus('''
def f(l, n):
    pos = 0
    chunks = []
    while pos < len(l):
        size = 1 + (l[pos] & 3)
        chunks.append(l[pos:pos + size])
        pos += size
    flat = []
    for c in chunks:
        flat.extend(c)
    return chunks, flat == l, pos
''')
corpus('''
def f(self, l, n):
    acc = self.c
    hist = []
    for x in l:
        acc = (acc + x) % 251
        if acc % 5 == 0:
            self.w.append(acc)
            hist.append(len(self.w))
        elif acc % 7 == 0 and self.w:
            hist.append(-self.w.pop())
    self.c = acc
    return hist
''')
corpus('''
def f(l, l2):
    res = []
    i = j = 0
    while i < len(l) and j < len(l2):
        if l[i] <= l2[j]:
            res.append(l[i])
            i += 1
        else:
            res.append(l2[j])
            j += 1
    res += l[i:]
    res += l2[j:]
    return res, i, j
''')
corpus('''
def f(a, b):
    m = (1 << (b % 17)) - 1
    x = a & m
    y = a % (1 << (b % 17))
    z = (a >> 3) << 3
    w = a - a % 8
    q, r = divmod(a, 1 << (b % 5))
    return x == y, z == w, q, r, a // 4 * 4 + a % 4, ~a & 0xff, (-a) & 0xff
''')
corpus('''
def f(l, n):
    it = iter(l)
    pairs = []
    for x in it:
        y = next(it, None)
        if y is None:
            pairs.append((x,))
            break
        pairs.append((x, y))
    z = list(zip(l[::2], l[1::2]))
    return pairs, z
''')
corpus('''
def f(l, n):
    st = []
    out = []
    for x in l:
        while st and st[-1] < x:
            out.append(st.pop())
        st.append(x)
    while st:
        out.append(st.pop())
    return out
''')


corpus('''
def f(o, l):
    r = [o.bump(x) for x in l if o.peek() % 4 != 0]
    t = b''.join(bytes([o.bump(1) & 0xff]) for _ in l[:3])
    return r, t, o.c
''')
corpus('''
def f(o, l):
    r = [o.bump(x) + y for x in l[:4] for y in o.w[:2]]
    acc = []
    for x in l:
        acc.append(o.bump(x))
    return r, acc, o.peek()
''')


corpus('''
def f(l, n):
    if len(l) < 3:
        return None
    a, *b, c = l
    first, *rest = b + [n]
    *init, last = rest or [0]
    return a, b, c, first, rest, init, last
''')


corpus('''
def f(l, n):
    if not l:
        return -1
    x = l[0]
    if len(l) < 3:
        return x
    y = l[2]
    d = {1: 2, 5: 6}
    if n not in d:
        return x + y
    z = d[n]
    return x + y + z
''')
corpus('''
def f(s, t):
    if len(s) < 4:
        raise ValueError
    w = s[3]
    tot = 0
    for pair in t:
        if len(pair) != 2:
            continue
        k, v = pair
        tot += k * v
    return w, tot
''')


corpus('''
def f(l, n):
    m = None
    im = -1
    for i in range(len(l)):
        if l[i] < n and (m is None or l[i] < m):
            m = l[i]
            im = i
    best = l[im] if im >= 0 and l[im] is not None else None
    if l and l[0] > 3 or n == 0:
        return best, m, 1
    x = m if m is not None and m > 2 else 0
    return best, m, x
''')


corpus('''
def f(o, n):
    a = o.mask
    o.size = n % 7 + 1
    b = o.mask
    c = o.ival
    o.size = 3
    return a, b, c, o.ival, o.size, o.c
''')


corpus('''
def f(a, b):
    def diffmod(x, y, n=256):
        d0 = abs(x % n - y % n)
        d1 = n - d0
        return min(d0, d1)
    d = diffmod(a, b)
    e = diffmod(a, b, 16)
    g = diffmod(y=a, x=b, n=7)
    return d, e, g
''')

# ---- round 8: control-flow normal forms (break/else -> exit, search loops, guarded while, conditional comparisons, lazy iterators) ----
corpus('''
def f(l, n):
    b = 0
    for i in range(len(l)):
        b = b * 2 + l[i]
        if b % 7 == n % 7:
            break
    else:
        raise ValueError
    return (b, i)
''')
corpus('''
def f(l, n):
    k = 0
    while 1:
        k += 1
        if k == n % 5 + 1:
            return k * 100
        n = n // 2 + len(l)
        if n % 3 == 0:
            break
    h = n + k
    h = h * 2
    return h
''')
corpus('''
def f(l, l2):
    if len(l) == len(l2):
        for (x, y) in zip(l, l2):
            if x - y:
                return False
        return True
    return sum(l) == sum(l2)
''')
corpus('''
def f(l, n):
    for x in l:
        if x > n:
            return True
    return False
''')
corpus('''
def f(l, n):
    z = []
    i = 0
    while i < 6 and len(z) <= n % 4:
        z = z + [i * 2 + len(l)]
        i += 1
    return z
''')
corpus('''
def f(l, n):
    m = len(l) * 8
    b = None if n % 3 == 0 else n % 50
    if b is None:
        b = m
    if b > m:
        raise ValueError
    if n % 2 and b % 16 > 0:
        raise KeyError
    return b
''')
corpus('''
def f(o, n):
    if n > 256:
        o.c = 1024
        o.d = 64
    else:
        o.c = 512
        o.d = 32
    return o.c + o.d, o.c, o.d
''')
corpus('''
def f(l, n):
    g = map(lambda x: x + n, l)
    l.append(n)
    r = list(g)
    h = (x * 2 for x in l)
    l.append(1)
    return r, sum(h), l
''')
corpus('''
def f(l, n):
    if n % 2:
        l = map(lambda x: x ^ 1, l)
    l = list(l)
    return l[:2], l[2:], len(l)
''')
corpus('''
def f(l, n):
    q, r = divmod(len(l), 3)
    if len(l) == 0 or r > 0:
        q += 1
    out = []
    for b in range(q - 1):
        out.append(b + n)
    t = 1 if n % 2 else 0
    u = 4 if n == 4 else (1 if n == 3 else (8 * n - 28 if n > 4 else 0))
    return out, q, t + 1, u // 3
''')
corpus('''
def f(a, b, **kargs):
    x = kargs.get('x', a)
    y = kargs.get('y', b)
    if x != y + 1:
        if 'x' in kargs and 'y' in kargs:
            a = x - y
        if 'y' in kargs and 'z' in kargs:
            b = x + y
    return a, b, x, y
''')

corpus('''
def f(l, n):
    out = []
    for x in map(lambda y: y + n, l):
        if len(l) < 6:
            l.append(x)
        out.append(x)
    for x in l:
        if len(l) < 9:
            l.append(x + 1)
    return out, l
''')

corpus('''
def f(l, n):
    c = [l[i] + n for i in range(len(l))]
    d = [x * 2 for x in c]
    e = [(x - 1) * y for x, y in zip(c, d)]
    return d, e, sum(x + 1 for x in c)
''')

# ---- hand-written rewrites of corpus entries in the shapes the control-flow normal forms absorb: some keep the behaviour, some do
# not (the mutation operators do not produce these shapes).  Each is treated like a mutant: accepted => must behave the same.
VARIANTS = []


def variant(name, src):
    VARIANTS.append((name, src.strip('\n') + '\n'))


variant('p98', '''
def f(l, n):
    b = 0
    for i in range(len(l)):
        b = b * 2 + l[i]
        if b % 7 == n % 7:
            return (b, i)
    raise ValueError
''')
variant('p98', '''
def f(l, n):
    b = 0
    for i in range(len(l)):
        b = b * 2 + l[i]
        if b % 7 == n % 7:
            break
    return (b, i)
''')
variant('p98', '''
def f(l, n):
    b = 0
    for i in range(len(l)):
        if b % 7 == n % 7:
            break
        b = b * 2 + l[i]
    else:
        raise ValueError
    return (b, i)
''')
variant('p99', '''
def f(l, n):
    k = 0
    while 1:
        k += 1
        if k == n % 5 + 1:
            return k * 100
        n = n // 2 + len(l)
        if n % 3 == 0:
            h = n + k
            h = h * 2
            return h
''')
variant('p99', '''
def f(l, n):
    k = 0
    while 1:
        k += 1
        if k == n % 5 + 1:
            return k * 100
        n = n // 2 + len(l)
        if n % 3 == 0:
            h = n + k
            return h
''')
variant('p99', '''
def f(l, n):
    k = 0
    while 1:
        k += 1
        if k == n % 5 + 1:
            break
        n = n // 2 + len(l)
        if n % 3 == 0:
            break
    h = n + k
    h = h * 2
    return h
''')
variant('p100', '''
def f(l, l2):
    if len(l) == len(l2):
        return not any(x - y for (x, y) in zip(l, l2))
    return sum(l) == sum(l2)
''')
variant('p100', '''
def f(l, l2):
    if len(l) == len(l2):
        return any(x - y for (x, y) in zip(l, l2))
    return sum(l) == sum(l2)
''')
variant('p100', '''
def f(l, l2):
    if len(l) == len(l2):
        return not all(x - y for (x, y) in zip(l, l2))
    return sum(l) == sum(l2)
''')
variant('p101', '''
def f(l, n):
    return any(x > n for x in l)
''')
variant('p101', '''
def f(l, n):
    return all(x > n for x in l)
''')
variant('p101', '''
def f(l, n):
    for x in l:
        if x > n:
            return True
        return False
''')
variant('p102', '''
def f(l, n):
    z = []
    for i in range(6):
        if len(z) > n % 4:
            break
        z = z + [i * 2 + len(l)]
    return z
''')
variant('p102', '''
def f(l, n):
    z = []
    for i in range(6):
        if len(z) >= n % 4:
            break
        z = z + [i * 2 + len(l)]
    return z
''')
variant('p102', '''
def f(l, n):
    z = []
    for i in range(6):
        z = z + [i * 2 + len(l)]
        if len(z) > n % 4:
            break
    return z
''')
variant('p103', '''
def f(l, n):
    m = len(l) * 8
    b = None if n % 3 == 0 else n % 50
    if b is None:
        b = m
    elif b > m:
        raise ValueError
    if n % 2 and b % 16 > 0:
        raise KeyError
    return b
''')
variant('p103', '''
def f(l, n):
    m = len(l) * 8
    b = None if n % 3 == 0 else n % 50
    if b is None:
        b = m
    elif b >= m:
        raise ValueError
    if n % 2 and b % 16 > 0:
        raise KeyError
    return b
''')
variant('p103', '''
def f(l, n):
    m = len(l) * 8
    b = None if n % 3 == 0 else n % 50
    if b is None:
        b = m
        if b > m:
            raise ValueError
    if n % 2 and b % 16 > 0:
        raise KeyError
    return b
''')
variant('p104', '''
def f(o, n):
    o.c = 1024 if n > 256 else 512
    o.d = 64 if n > 256 else 32
    return o.c + o.d, o.c, o.d
''')
variant('p104', '''
def f(o, n):
    o.c = 1024 if n > 256 else 512
    o.d = 32 if n > 256 else 64
    return o.c + o.d, o.c, o.d
''')
variant('p105', '''
def f(l, n):
    g = list(map(lambda x: x + n, l))
    l.append(n)
    r = list(g)
    h = (x * 2 for x in l)
    l.append(1)
    return r, sum(h), l
''')
variant('p105', '''
def f(l, n):
    g = map(lambda x: x + n, l)
    l.append(n)
    r = list(g)
    h = [x * 2 for x in l]
    l.append(1)
    return r, sum(h), l
''')
variant('p105', '''
def f(l, n):
    g = map(lambda x: x + n, l)
    r = list(g)
    l.append(n)
    h = (x * 2 for x in l)
    l.append(1)
    return r, sum(h), l
''')
variant('p106', '''
def f(l, n):
    l = list(map(lambda x: x ^ 1, l) if n % 2 else l)
    return l[:2], l[2:], len(l)
''')
variant('p106', '''
def f(l, n):
    l = list(l if n % 2 else map(lambda x: x ^ 1, l))
    return l[:2], l[2:], len(l)
''')
variant('p107', '''
def f(l, n):
    q, r = divmod(len(l), 3)
    if len(l) == 0 or r > 0:
        q += 1
    out = []
    for b in range(q - 1):
        out.append(b + n)
    t = 1 if n % 2 else 0
    if n > 4:
        u = 8 * n - 28
    elif n == 4:
        u = 4
    elif n == 3:
        u = 1
    else:
        u = 0
    return out, q, t + 1, u // 3
''')
variant('p107', '''
def f(l, n):
    q, r = divmod(len(l), 3)
    if len(l) == 0 or r > 0:
        q += 1
    out = []
    for b in range(q - 1):
        out.append(b + n)
    t = 1 if n % 2 else 0
    if n > 3:
        u = 8 * n - 28
    elif n == 4:
        u = 4
    elif n == 3:
        u = 1
    else:
        u = 0
    return out, q, t + 1, u // 3
''')
variant('p107', '''
def f(l, n):
    q, r = divmod(len(l), 3)
    if len(l) == 0 or r > 0:
        q += 1
    out = []
    for b in range(q - 1):
        out.append(b + n)
    t = n % 2 == 1
    u = 4 if n == 4 else (1 if n == 3 else (8 * n - 28 if n > 4 else 0))
    return out, q, t + 1, u // 3
''')
variant('p108', '''
def f(a, b, **kargs):
    x = kargs.get('x', a)
    y = kargs.get('y', b)
    if x != y + 1 and 'y' in kargs:
        if 'x' in kargs:
            a = x - y
        if 'z' in kargs:
            b = x + y
    return a, b, x, y
''')
variant('p108', '''
def f(a, b, **kargs):
    x = kargs.get('x', a)
    y = kargs.get('y', b)
    if x != y + 1 and 'x' in kargs:
        if 'y' in kargs:
            a = x - y
        if 'z' in kargs:
            b = x + y
    return a, b, x, y
''')

variant('p109', '''
def f(l, n):
    out = []
    for x in list(map(lambda y: y + n, l)):
        if len(l) < 6:
            l.append(x)
        out.append(x)
    for x in l:
        if len(l) < 9:
            l.append(x + 1)
    return out, l
''')
variant('p109', '''
def f(l, n):
    out = []
    for x in [y + n for y in l]:
        if len(l) < 6:
            l.append(x)
        out.append(x)
    for x in l:
        if len(l) < 9:
            l.append(x + 1)
    return out, l
''')
variant('p109', '''
def f(l, n):
    out = []
    for x in map(lambda y: y + n, l):
        if len(l) < 6:
            l.append(x)
        out.append(x)
    for x in list(l):
        if len(l) < 9:
            l.append(x + 1)
    return out, l
''')
variant('p109', '''
def f(l, n):
    out = []
    for x in map(lambda y: y + n, l):
        if len(l) < 6:
            l.append(x)
        out.append(x)
    for i in range(len(l)):
        x = l[i]
        if len(l) < 9:
            l.append(x + 1)
    return out, l
''')

variant('p110', '''
def f(l, n):
    d = [(l[i] + n) * 2 for i in range(len(l))]
    c = [l[i] + n for i in range(len(l))]
    e = [(x - 1) * y for x, y in zip(c, d)]
    return d, e, sum(x + 1 for x in c)
''')
variant('p110', '''
def f(l, n):
    d = [(l[i] + n) * 2 for i in range(len(l) - 1)]
    c = [l[i] + n for i in range(len(l))]
    e = [(x - 1) * y for x, y in zip(c, d)]
    return d, e, sum(x + 1 for x in c)
''')
variant('p110', '''
def f(l, n):
    d = [l[i] * 2 + n for i in range(len(l))]
    c = [l[i] + n for i in range(len(l))]
    e = [(x - 1) * y for x, y in zip(c, d)]
    return d, e, sum(x + 1 for x in c)
''')
variant('p110', '''
def f(l, n):
    c = [l[i] + n for i in range(len(l))]
    d = [c[i] * 2 for i in range(len(c))]
    e = [(c[i] - 1) * d[i] for i in range(len(c))]
    return d, e, sum(l[i] + n + 1 for i in range(len(l)))
''')
variant('p110', '''
def f(l, n):
    c = [l[i] + n for i in range(len(l))]
    d = [c[i] * 2 for i in range(len(c))]
    e = [(c[i] - 1) * d[i - 1] for i in range(len(c))]
    return d, e, sum(l[i] + n + 1 for i in range(len(l)))
''')

# ---- input generation by parameter name ----------------------------------------------------------------------------------------


def gen_arg(name, rng):
    if name in ('l', 'l2'):
        return [rng.choice([0, 1, 2, 3, 5, 7, 8, 100, 255, rng.randrange(256)]) for _ in range(rng.choice([0, 1, 2, 3, 4, 5, 8, 12]))]
    if name == 's':
        return bytes(rng.randrange(256) for _ in range(rng.choice([0, 1, 3, 4, 5, 8, 12])))
    if name == 't':
        return [(rng.randrange(4), rng.randrange(10)) for _ in range(rng.randrange(6))]
    if name in ('o', 'self'):
        return Obj(w=[rng.randrange(256) for _ in range(rng.choice([0, 1, 4]))], c=rng.randrange(400), d=0, _sz=9, mask=511, ival=rng.randrange(512))
    if name == 'flag':
        return rng.random() < 0.5
    return rng.choice([0, 1, 2, 3, 4, 5, 7, 8, 9, 15, 16, 17, 31, 255, 256, 1000, rng.randrange(70000)])


class Obj(types.SimpleNamespace):
    def bump(self, k):
        self.c += k
        return self.c

    def peek(self):
        return self.c * 2

    def push(self, x):
        self.w.append(x)
        return self

    @property
    def size(self):
        return self._sz

    @size.setter
    def size(self, v):
        self._sz = v
        self.mask = (1 << v) - 1
        self.ival &= self.mask      # (the attributes crysp's own `size` setter stores: the write sets are name-based)

    def blocks(self, s, n):
        i = 0
        while i + n <= len(s):
            self.c += 1
            yield s[i:i + n]
            i += n
        self.d = len(s) - i

    def last(self, s, n):
        self.d = -1
        return s[len(s) - len(s) % n:] + b'\x80'


class _Timeout(Exception):
    pass


def _alarm(sig, frm):
    raise _Timeout()


def snapshot(x, depth=0):
    if depth > 12:
        return '<deep>'
    return _snap(x, depth)


def _snap(x, depth):
    snapshot = lambda y: globals()['snapshot'](y, depth + 1)      # noqa: E731
    if isinstance(x, types.SimpleNamespace):
        return ('ns', sorted((k, snapshot(v)) for k, v in vars(x).items()))
    if isinstance(x, (list, tuple)):
        return (type(x).__name__, [snapshot(y) for y in x])
    if isinstance(x, dict):
        return ('dict', sorted((repr(k), snapshot(v)) for k, v in x.items()))
    if isinstance(x, set):
        return ('set', sorted(repr(y) for y in x))
    return repr(x)


def run(src, args):
    ns = {'struct': struct}
    exec(compile(src, '<toy>', 'exec'), ns)
    f = ns['f']
    args = copy.deepcopy(args)
    signal.signal(signal.SIGALRM, _alarm)
    signal.setitimer(signal.ITIMER_REAL, 0.4)
    try:
        try:
            kw = {}
            if f.__code__.co_flags & 0x08:         # **kargs: a subset of the keys x, y, z chosen from the arguments
                r_ = random.Random(repr(args))
                kw = {k: r_.randrange(6) for k in ('x', 'y', 'z') if r_.random() < 0.5}
            r = f(*args, **kw)
            if isinstance(r, types.GeneratorType):
                r = list(itertools.islice(r, 2000))
            out = ('ret', snapshot(r))
        except _Timeout:
            out = ('timeout',)
        except RecursionError:
            out = ('timeout',)
        except MemoryError:
            out = ('timeout',)
        except Exception as e:
            out = ('exc', type(e).__name__)
    finally:
        signal.setitimer(signal.ITIMER_REAL, 0)
    return out, snapshot(args)


# ---- mutation --------------------------------------------------------------------------------------------------------------------
import mass_mutants as MM   # noqa: E402  (first-order operators)


def names_loaded(fdef):
    return sorted({n.id for n in ast.walk(fdef) if isinstance(n, ast.Name)} - {'range', 'len', 'list', 'sorted', 'enumerate', 'zip', 'reversed',
                  'max', 'min', 'sum', 'divmod', 'bool', 'struct', 'set', 'next', 'iter', 'reduce', 'operator', 'map', 'isinstance', 'int', 'zip', 'bytes', 'int', 'repr', 'add', 'ValueError', 'IndexError', 'ZeroDivisionError', 'f', 'g'})


def struct_sites(fdef):
    out = []
    for parent in ast.walk(fdef):
        for fld in ('body', 'orelse', 'finalbody'):
            b = getattr(parent, fld, None)
            if not (isinstance(b, list) and b and isinstance(b[0], ast.stmt)):
                continue
            for i, st in enumerate(b):
                if i + 1 < len(b) and not isinstance(st, (ast.Return, ast.Raise, ast.Break, ast.Continue)):
                    out.append(('swapstmt', (parent, fld, i)))
                if isinstance(st, ast.Break):
                    out.append(('brk2cont', (parent, fld, i)))
                    out.append(('deljump', (parent, fld, i)))
                if isinstance(st, ast.Continue):
                    out.append(('cont2brk', (parent, fld, i)))
                    out.append(('deljump', (parent, fld, i)))
                if isinstance(st, (ast.For, ast.While)):
                    if st.orelse:
                        out.append(('dropelse', (parent, fld, i)))
                    if len(st.body) > 1 and not isinstance(st.body[-1], (ast.Break, ast.Continue, ast.Return)):
                        out.append(('lastout', (parent, fld, i)))
                    if i + 1 < len(b) and not isinstance(b[i + 1], (ast.Return, ast.FunctionDef)):
                        out.append(('nextin', (parent, fld, i)))
                    if len(st.body) > 1:
                        out.append(('firstout', (parent, fld, i)))
                if isinstance(st, ast.If):
                    out.append(('iftrue', (parent, fld, i)))
                    out.append(('iffalse', (parent, fld, i)))
                    if i + 1 < len(b) and not st.orelse:
                        out.append(('absorb', (parent, fld, i)))       # next statement moves into the if body
                    if len(st.body) > 1:
                        out.append(('expel', (parent, fld, i)))        # last statement of the if body moves after the if
                if isinstance(st, ast.If) and st.orelse:
                    out.append(('ifswapbranches', (parent, fld, i)))
                if isinstance(st, (ast.Assign, ast.AugAssign, ast.Expr)) and not isinstance(getattr(st, 'value', None), ast.Constant):
                    out.append(('dupstmt', (parent, fld, i)))
                if isinstance(st, ast.Assign) and len(st.targets) == 1 and isinstance(st.targets[0], ast.Tuple) \
                        and isinstance(st.value, ast.Tuple) and len(st.targets[0].elts) == len(st.value.elts):
                    out.append(('seqassign', (parent, fld, i)))
                if isinstance(st, ast.AugAssign) and isinstance(st.target, ast.Name):
                    out.append(('aug2assign', (parent, fld, i)))
                if isinstance(st, ast.Assign) and len(st.targets) == 1 and isinstance(st.targets[0], ast.Name) \
                        and isinstance(st.value, ast.BinOp) and isinstance(st.value.left, ast.Name) and st.value.left.id == st.targets[0].id:
                    out.append(('assign2aug', (parent, fld, i)))
    for n in ast.walk(fdef):
        if isinstance(n, ast.Call) and isinstance(n.func, ast.Name) and n.func.id == 'list' and len(n.args) == 1:
            out.append(('unalias', n))
        if isinstance(n, ast.Subscript) and isinstance(n.slice, ast.Slice) and n.slice.lower is None and n.slice.upper is None \
                and n.slice.step is None and isinstance(n.ctx, ast.Load):
            out.append(('unalias', n))
        if isinstance(n, ast.Call) and isinstance(n.func, ast.Name) and n.func.id == 'range':
            out.append(('rangeplus', n))
            if len(n.args) == 1:
                out.append(('rangefrom1', n))
        if isinstance(n, ast.Call) and isinstance(n.func, ast.Name) and n.func.id == 'reversed':
            out.append(('unreverse', n))
        if isinstance(n, ast.Name) and isinstance(n.ctx, ast.Load):
            out.append(('varrepl', n))
        if isinstance(n, ast.Compare) and len(n.ops) == 1:
            out.append(('cmpswap', n))
        if isinstance(n, ast.Attribute):
            out.append(('attrrepl', n))
        if isinstance(n, ast.Return) and n.value is not None:
            out.append(('retrepl', n))
        if isinstance(n, ast.IfExp):
            out.append(('ifexpswap', n))
        if isinstance(n, ast.BoolOp) and len(n.values) >= 2:
            out.append(('boolswap', n))
        if isinstance(n, ast.Subscript) and not isinstance(n.slice, ast.Slice) and isinstance(n.ctx, ast.Load):
            out.append(('idxplus', n))
    return out


def struct_apply(kind, node, rng, fdef):
    if kind in ('ifswapbranches', 'dupstmt', 'seqassign', 'swapstmt', 'brk2cont', 'cont2brk', 'deljump', 'dropelse', 'lastout', 'nextin', 'firstout', 'iftrue', 'iffalse',
                'absorb', 'expel', 'aug2assign', 'assign2aug'):
        parent, fld, i = node
        b = getattr(parent, fld)
        st = b[i]
        if kind == 'ifswapbranches':
            st.body, st.orelse = st.orelse, st.body
        elif kind == 'dupstmt':
            b.insert(i, copy.deepcopy(st))
        elif kind == 'seqassign':
            b[i:i + 1] = [ast.Assign(targets=[t_], value=v_) for t_, v_ in zip(st.targets[0].elts, st.value.elts)]
        elif kind == 'swapstmt':
            b[i], b[i + 1] = b[i + 1], b[i]
        elif kind == 'brk2cont':
            b[i] = ast.Continue()
        elif kind == 'cont2brk':
            b[i] = ast.Break()
        elif kind == 'deljump':
            b[i] = ast.Pass()
        elif kind == 'dropelse':
            b[i + 1:i + 1] = st.orelse
            st.orelse = []
        elif kind == 'lastout':
            b.insert(i + 1, st.body.pop())
        elif kind == 'firstout':
            b.insert(i, st.body.pop(0))
        elif kind == 'nextin':
            st.body.append(b.pop(i + 1))
        elif kind == 'iftrue':
            b[i:i + 1] = st.body
        elif kind == 'iffalse':
            b[i:i + 1] = st.orelse or [ast.Pass()]
        elif kind == 'absorb':
            st.body.append(b.pop(i + 1))
        elif kind == 'expel':
            b.insert(i + 1, st.body.pop())
        elif kind == 'aug2assign':
            b[i] = ast.Assign(targets=[ast.Name(id=st.target.id, ctx=ast.Store())],
                              value=ast.BinOp(left=ast.Name(id=st.target.id, ctx=ast.Load()), op=st.op, right=st.value))
        elif kind == 'assign2aug':
            b[i] = ast.AugAssign(target=ast.Name(id=st.targets[0].id, ctx=ast.Store()), op=st.value.op, value=st.value.right)
        return
    if kind == 'unalias':
        tgt = node.args[0] if isinstance(node, ast.Call) else node.value
        for p in ast.walk(fdef):
            for fld, val in ast.iter_fields(p):
                if val is node:
                    setattr(p, fld, tgt)
                elif isinstance(val, list):
                    for k, x in enumerate(val):
                        if x is node:
                            val[k] = tgt
    elif kind == 'rangeplus':
        node.args[-1 if len(node.args) < 3 else 1] = ast.BinOp(left=node.args[-1 if len(node.args) < 3 else 1], op=ast.Add(), right=ast.Constant(value=1))
    elif kind == 'rangefrom1':
        node.args.insert(0, ast.Constant(value=1))
    elif kind == 'unreverse':
        node.func = ast.Name(id='list', ctx=ast.Load())
    elif kind == 'varrepl':
        cands = [x for x in names_loaded(fdef) if x != node.id]
        if cands:
            node.id = rng.choice(cands)
    elif kind == 'attrrepl':
        cands = sorted({x.attr for x in ast.walk(fdef) if isinstance(x, ast.Attribute) and isinstance(x.value, ast.Name)
                        and isinstance(node.value, ast.Name) and x.value.id == node.value.id and x.attr != node.attr
                        and x.attr in ('w', 'c', 'd')})
        if cands and node.attr in ('w', 'c', 'd'):
            node.attr = rng.choice(cands)
    elif kind == 'retrepl':
        cands = [x for x in names_loaded(fdef)]
        if cands:
            node.value = ast.Name(id=rng.choice(cands), ctx=ast.Load())
    elif kind == 'cmpswap':
        node.left, node.comparators[0] = node.comparators[0], node.left
    elif kind == 'ifexpswap':
        node.body, node.orelse = node.orelse, node.body
    elif kind == 'boolswap':
        node.values[0], node.values[1] = node.values[1], node.values[0]
    elif kind == 'idxplus':
        node.slice = ast.BinOp(left=node.slice, op=ast.Add(), right=ast.Constant(value=1))


def all_sites(fdef):
    return [('fo', k, n) for k, n in MM.sites(fdef)] + [('st', k, n) for k, n in struct_sites(fdef)]


def mutate(src, idx, seed):
    tree = ast.parse(src)
    fdef = tree.body[0]
    fam, kind, node = all_sites(fdef)[idx]
    rng = random.Random(seed * 7919 + idx)
    if fam == 'fo':
        MM.apply(kind, node)
    else:
        struct_apply(kind, node, rng, fdef)
    ast.fix_missing_locations(tree)
    new = ast.unparse(tree)
    compile(new, '<m>', 'exec')
    return kind, new


# ---- the checker's acceptance ----------------------------------------------------------------------------------------------------
_ctx = None


def accepts(a, b):
    """would cmp_fn accept b against the restatement a?  -> reason or None"""
    global _ctx
    from sa.core import Ctx, equiv_mod_ite
    from sa import terms as T
    if _ctx is None:
        _ctx = Ctx('C01', 'quick', 0, '/repo')
    ctx = _ctx
    try:
        ta, tb = ctx.spec_term(a, name='f'), ctx.spec_term(b, name='f')
    except (T.Unsupported, RecursionError):
        return None
    if ta == tb:
        return 'equal terms'
    try:
        if equiv_mod_ite(tb, ta):
            return 'decision trees'
    except Exception:
        pass
    for n in (8, 32, 160):
        try:
            g2, e2 = ctx.spec_term(b, name='f', unroll=n), ctx.spec_term(a, name='f', unroll=n)
        except (T.Unsupported, RecursionError):
            break
        if g2 == e2 or equiv_mod_ite(g2, e2):
            return 'unroll %d' % n
    return None


def differs(a, b, n_inputs, seed):
    params = [x.arg for x in ast.parse(a).body[0].args.args]
    rng = random.Random(seed)
    for k in range(n_inputs):
        args = [gen_arg(p, rng) for p in params]
        ra, rb = run(a, args), run(b, args)
        if ra[0] == ('timeout',) or rb[0] == ('timeout',):
            if ra[0] != rb[0]:
                return args, ra, rb
            continue
        if ra != rb:
            return args, ra, rb
    return None


def always_crashes(src, seed):
    """every input ends in NameError / TypeError / UnboundLocalError / AttributeError: any test that calls the function fails"""
    params = [x.arg for x in ast.parse(src).body[0].args.args]
    rng = random.Random(seed + 1)
    for k in range(60):
        out, _ = run(src, [gen_arg(p, rng) for p in params])
        if not (out[0] == 'exc' and out[1] in ('NameError', 'TypeError', 'UnboundLocalError', 'AttributeError')):
            return False
    return True


def work(job):
    name, idx, seed = job
    src = CORPUS[name]
    if type(idx) is str:                       # a hand-written variant
        kind, new = 'hand-written variant ' + idx, VARIANTS[int(idx[1:])][1]
        job, r, info = _work(job, src, new, kind, seed)
        return job, ('hand: ' + r if r != 'UNSOUND' else r), info
    try:
        kind, new = mutate(src, idx, seed)
    except Exception as ex:
        return job, 'skip', None
    return _work(job, src, new, kind, seed)


def _work(job, src, new, kind, seed):
    name = job[0]
    if ast.dump(ast.parse(new)) == ast.dump(ast.parse(src)):
        return job, 'same', kind
    try:
        why = accepts(src, new)
    except Exception as ex:
        return job, 'error', '%s: %s\n%s' % (kind, ex, new)
    if why is None:
        return job, 'rejected', kind
    try:
        d = differs(src, new, 300, seed)
    except Exception as ex:
        return job, 'error', 'oracle: %s %s' % (kind, ex)
    if d is None:
        return job, 'accepted-equivalent (%s)' % why, kind
    if always_crashes(new, seed):
        return job, 'accepted-mutant-always-crashes', kind
    return job, 'UNSOUND', '%s (%s)\n--- mutant of %s\n%s--- input %r\n    original -> %r\n    mutant   -> %r' % (kind, why, name, new, d[0], d[1], d[2])


if __name__ == '__main__':
    ap = argparse.ArgumentParser()
    ap.add_argument('--seed', type=int, default=1)
    ap.add_argument('--max', type=int, default=0)
    ap.add_argument('--jobs', type=int, default=14)
    ap.add_argument('--only', default='')
    a = ap.parse_args()
    jobs = []
    for name, src in CORPUS.items():
        if a.only and name not in a.only.split(','):
            continue
        n = len(all_sites(ast.parse(src).body[0]))
        jobs += [(name, i, a.seed) for i in range(n)]
    # every corpus entry must be accepted against itself and run
    for name, src in CORPUS.items():
        if a.only and name not in a.only.split(','):
            continue
        try:
            why = accepts(src, src)
        except Exception as ex:
            why = 'ERROR %s' % ex
        if why != 'equal terms':
            print('corpus entry %s is not analysable: %s' % (name, why))
    random.Random(a.seed).shuffle(jobs)
    if a.max:
        jobs = jobs[:a.max]
    jobs += [(nm, 'v%d' % k, a.seed) for k, (nm, _) in enumerate(VARIANTS) if not a.only or nm in a.only.split(',')]
    print('corpus %d functions, %d mutants' % (len(CORPUS), len(jobs)), flush=True)
    cnt = {}
    with cf.ProcessPoolExecutor(max_workers=a.jobs) as ex:
        for job, st, info in ex.map(work, jobs, chunksize=8):
            cnt[st] = cnt.get(st, 0) + 1
            if st in ('UNSOUND', 'error'):
                print('%s %s#%s %s' % (st, job[0], job[1], info), flush=True)
    print(cnt)
