#!/venv/bin/python
"""Freeze the table of definitions confirmed on the reference tree (/repo HEAD): functions, methods, module- and class-level
names per module.  Anything NOT in this table is treated as a new private helper/constant and inlined before analysis
(sa/inline.py).  Re-run only after reviewing that every definition of the tree is covered by a rule or deliberately out of scope."""
import ast, os, json, subprocess, sys
sys.path.insert(0, '/verif')
from sa.inline import known_defs_of
out = {}
files = subprocess.check_output('git -C /repo ls-tree -r --name-only HEAD crysp', shell=True, text=True).split()
for rel in sorted(files):
    if rel.endswith('.py'):
        src = subprocess.check_output(['git', '-C', '/repo', 'show', 'HEAD:' + rel], text=True)
        out[rel] = known_defs_of(ast.parse(src))
json.dump(out, open('/verif/sa/spec/known_defs.json', 'w'), indent=0, sort_keys=True)
print(len(out), 'modules', sum(len(v['functions']) for v in out.values()), 'functions')
