#!/venv/bin/python
"""Regenerate MANIFEST.json from the rule modules' META (run from /verif)."""
import json, os, sys, importlib
sys.path.insert(0, os.path.dirname(os.path.dirname(os.path.abspath(__file__))))
PY = '/venv/bin/python'
props = [json.loads(l) for l in open('properties.jsonl')]
checks, na = [], []
for p in props:
    pid = p['id']
    try:
        mod = importlib.import_module('sa.rules.' + pid)
    except ImportError:
        na.append({'property_id': pid, 'reason': 'static rule set for this property is not built yet in this round (see DESIGN.md section 2 for the planned rules)'})
        continue
    M = mod.META
    if M.get('not_applicable'):
        na.append({'property_id': pid, 'reason': M['not_applicable']})
        continue
    checks.append({
        'property_id': pid,
        'quick_cmd': '%s -m sa.check %s --tier quick' % (PY, pid),
        'thorough_cmd': '%s -m sa.check %s --tier thorough' % (PY, pid),
        'evidence_file': '/verif/evidence/%s.json' % pid,
        'replay_cmd_template': '%s -m sa.check --replay {path}' % PY,
        'engine': 'sa',
        'level_claimed': {
            'category': 'other',
            'text': 'Static analysis of /repo source (never executed): ' + M['title'] + '. Structural clauses only: each rule is a necessary condition of the property; '
                    'end-to-end equality with the standard for all inputs is not decided.',
            'design_ref': 'DESIGN.md section 2, ' + pid,
        },
        'level_note': 'Trusted: ' + '; '.join(M.get('trusted_base', [])) + '. ' + ' '.join(M.get('assumptions', [])),
        'technique': M.get('technique', 'AST constant folding vs derived standard constants; gated-SSA term normalisation (value numbering) compared with specification restatements; formula tabulation over finite domains'),
    })
man = {
    'version': 1,
    'setup_cmd': '%s -m sa.check --self-check' % PY,
    'hooks': {'guard': 'BDCHT_CRYSP_VERIF', 'enable': 'no hooks: nothing in /repo is executed by the checks',
              'baseline_off_cmd': 'cd /repo && /venv/bin/python -m pytest -ra -q -p no:cacheprovider --timeout=900 --continue-on-collection-errors',
              'source_commits': [], 'add_only': True},
    'engines': [{'name': 'sa', 'path': '/verif/sa', 'serves_properties': [c['property_id'] for c in checks],
                 'kind_free_text': 'custom static analyser on python ast: loader/resolver, constant folder, gated-SSA term normaliser, effect/typestate and definite-assignment analyses, independent spec oracles'}],
    'checks': checks,
    'not_applicable': na,
    'notes': 'All checks are static (ast only, /repo is never imported). exit 0 ok / known findings, 1 VIOLATION, 2 ANALYSIS-ERROR. known findings: /verif/known_findings.json',
}
json.dump(man, open('MANIFEST.json', 'w'), indent=1)
print('claimed:', [c['property_id'] for c in checks], 'n/a:', [x['property_id'] for x in na])
