#!/venv/bin/python
"""Mass first-order mutation of the anchored functions: every mutant changes one AST node of one function that some rule
covers; the quick checks that cover the file must report it (exit 1).  Survivors are printed for triage: each is either an
equivalent mutant (behaviour unchanged) or a blind spot of the normaliser.
usage: mass_mutants.py [--files crysp/sha.py,...] [--max N] [--seed S] [--jobs J] [--out FILE]"""
import ast, os, sys, json, random, subprocess, shutil, tempfile, copy, argparse, glob
import concurrent.futures as cf
sys.path.insert(0, '/verif')

PROPS = ['C%02d' % i for i in range(1, 21)]
UNCOVERED = False
SKIP_FILES = {'crysp/utils/freq1.py', 'crysp/utils/freq2.py', 'crysp/utils/freq3.py', 'crysp/utils/oldies.py', 'crysp/utils/words.py',
              'crysp/__init__.py', 'crysp/utils/__init__.py', 'crysp/utils/sbox.py'}


def covered_functions():
    cov = {}
    for f in glob.glob('/verif/evidence/C*.json'):
        e = json.load(open(f))
        for x in e['coverage'].get('functions_analysed', []):
            if '::' in x:
                rel, q = x.split('::', 1)
                cov.setdefault(rel, set()).add(q)
    return cov


CMP = {ast.Lt: ast.LtE, ast.LtE: ast.Lt, ast.Gt: ast.GtE, ast.GtE: ast.Gt, ast.Eq: ast.NotEq, ast.NotEq: ast.Eq,
       ast.Is: ast.IsNot, ast.IsNot: ast.Is, ast.In: ast.NotIn, ast.NotIn: ast.In}
BIN = {ast.Add: ast.Sub, ast.Sub: ast.Add, ast.Mult: ast.FloorDiv, ast.FloorDiv: ast.Mult, ast.LShift: ast.RShift, ast.RShift: ast.LShift,
       ast.BitAnd: ast.BitOr, ast.BitOr: ast.BitAnd, ast.BitXor: ast.BitAnd, ast.Mod: ast.FloorDiv}


def sites(fdef):
    """(kind, node) mutation sites inside one function (not in nested functions' defaults etc.)"""
    out = []
    for n in ast.walk(fdef):
        if isinstance(n, ast.Compare) and len(n.ops) == 1 and type(n.ops[0]) in CMP:
            out.append(('cmp', n))
        elif isinstance(n, ast.BinOp) and type(n.op) in BIN:
            out.append(('binop', n))
            if isinstance(n.op, (ast.Sub, ast.FloorDiv, ast.LShift, ast.RShift, ast.Mod)) and ast.dump(n.left) != ast.dump(n.right):
                out.append(('swap', n))
        elif isinstance(n, ast.BoolOp):
            out.append(('boolop', n))
        elif isinstance(n, ast.UnaryOp) and isinstance(n.op, ast.Not):
            out.append(('unnot', n))
        elif isinstance(n, ast.Constant) and type(n.value) is int and not isinstance(n.value, bool):
            out.append(('const', n))
        elif isinstance(n, ast.AugAssign) and type(n.op) in BIN:
            out.append(('augop', n))
        elif isinstance(n, ast.Slice) and n.upper is not None:
            out.append(('slice', n))
    # statement deletion (assignments and expression statements that are not docstrings)
    for parent in ast.walk(fdef):
        for fld in ('body', 'orelse', 'finalbody'):
            b = getattr(parent, fld, None)
            if isinstance(b, list) and len(b) > 1:
                for i, st in enumerate(b):
                    if isinstance(st, (ast.Assign, ast.AugAssign)) or (isinstance(st, ast.Expr) and not isinstance(st.value, ast.Constant)):
                        out.append(('delete', (parent, fld, i)))
    return out


def apply(kind, node):
    if kind == 'cmp':
        node.ops = [CMP[type(node.ops[0])]()]
    elif kind == 'binop':
        node.op = BIN[type(node.op)]()
    elif kind == 'swap':
        node.left, node.right = node.right, node.left
    elif kind == 'boolop':
        node.op = ast.Or() if isinstance(node.op, ast.And) else ast.And()
    elif kind == 'unnot':
        node.op = ast.UAdd()        # `not x` -> `+x`: keeps the operand, drops the negation (only used in conditions)
    elif kind == 'const':
        node.value = node.value + 1
    elif kind == 'augop':
        node.op = BIN[type(node.op)]()
    elif kind == 'slice':
        node.upper = ast.BinOp(left=node.upper, op=ast.Add(), right=ast.Constant(value=1))
    elif kind == 'delete':
        parent, fld, i = node
        getattr(parent, fld)[i] = ast.Pass()


def enumerate_mutants(files, cov):
    muts = []
    for rel in files:
        src = open('/repo/' + rel).read()
        tree = ast.parse(src)
        quals = []
        for n in tree.body:
            if isinstance(n, ast.FunctionDef):
                quals.append((n.name, n))
            elif isinstance(n, ast.ClassDef):
                for s in n.body:
                    if isinstance(s, ast.FunctionDef):
                        quals.append((n.name + '.' + s.name, s))
        seen_q = {}
        quals2 = []
        for q, f in quals:
            k_ = seen_q.get(q, 0)
            seen_q[q] = k_ + 1
            quals2.append((q if not k_ else '%s@%d' % (q, k_), f))      # a property's setter is the 2nd definition of the name
        for q, f in quals2:
            if UNCOVERED:
                if q.split('@')[0] in cov.get(rel, ()):
                    continue
            elif q.split('@')[0] not in cov.get(rel, ()):
                continue
            for k, (kind, node) in enumerate(sites(f)):
                muts.append((rel, q, k, kind))
    return muts


def make(rel, q, k):
    src = open('/repo/' + rel).read()
    tree = ast.parse(src)
    for n in tree.body:
        cands = [(n.name, n)] if isinstance(n, ast.FunctionDef) else \
            [(n.name + '.' + s.name, s) for s in n.body if isinstance(s, ast.FunctionDef)] if isinstance(n, ast.ClassDef) else []
        occ_ = {}
        cands2 = []
        for qq, f in cands:
            k_ = occ_.get(qq, 0)
            occ_[qq] = k_ + 1
            cands2.append((qq if not k_ else '%s@%d' % (qq, k_), f))
        for qq, f in cands2:
            if qq == q:
                kind, node = sites(f)[k]
                line = getattr(node, 'lineno', None) if not isinstance(node, tuple) else getattr(getattr(node[0], node[1])[node[2]], 'lineno', None)
                before = ast.unparse(node if not isinstance(node, tuple) else getattr(node[0], node[1])[node[2]])
                apply(kind, node)
                ast.fix_missing_locations(tree)
                return ast.unparse(tree), line, before
    raise KeyError(q)


def deps_of(rel):
    """checks whose rules read this file (own anchors or dependency rule sets): cheap over-approximation = all that mention it in evidence"""
    out = []
    for f in sorted(glob.glob('/verif/evidence/C*.json')):
        e = json.load(open(f))
        if any(x == rel or x.startswith(rel + '::') for x in e['coverage'].get('functions_analysed', [])):
            out.append(e['property_id'])
    return out or PROPS


def run_one(m):
    rel, q, k, kind = m
    t = tempfile.mkdtemp(prefix='mm_', dir='/tmp')
    try:
        try:
            new, line, before = make(rel, q, k)
            compile(new, rel, 'exec')
        except Exception as ex:
            return m, 'skip', str(ex)[:80], None
        subprocess.run('git -C /repo archive HEAD | tar -x -C %s' % t, shell=True, check=True)
        # unparse of the ORIGINAL too, so that only the mutation differs (formatting is irrelevant to the checks anyway)
        open(os.path.join(t, rel), 'w').write(new + '\n')
        hit = []
        for p in deps_of(rel):
            r = subprocess.run(['/venv/bin/python', '-m', 'sa.check', p, '--root', t], cwd='/verif', capture_output=True, text=True)
            if r.returncode == 1:
                hit.append(p)
                break
            if r.returncode == 2:
                hit.append(p + '(err)')
                break
        return m, ('caught' if hit else 'SURVIVED'), '%s:%s %s' % (rel, line, before[:100]), hit
    finally:
        shutil.rmtree(t, ignore_errors=True)


if __name__ == '__main__':
    ap = argparse.ArgumentParser()
    ap.add_argument('--files', default='')
    ap.add_argument('--max', type=int, default=400)
    ap.add_argument('--seed', type=int, default=1)
    ap.add_argument('--jobs', type=int, default=14)
    ap.add_argument('--out', default='/tmp/mass_mutants.txt')
    ap.add_argument('--uncovered', action='store_true', help='mutate the functions of the files that NO evidence file lists (property setters, ...)')
    a = ap.parse_args()
    UNCOVERED = a.uncovered
    cov = covered_functions()
    files = [f for f in (a.files.split(',') if a.files else sorted(cov)) if f and f not in SKIP_FILES and os.path.exists('/repo/' + f)]
    muts = enumerate_mutants(files, cov)
    random.Random(a.seed).shuffle(muts)
    muts = muts[:a.max]
    print('mutants:', len(muts), 'of functions in', len(files), 'files', flush=True)
    n = {'caught': 0, 'SURVIVED': 0, 'skip': 0}
    with open(a.out, 'w') as out, cf.ThreadPoolExecutor(max_workers=a.jobs) as ex:
        for m, st, what, hit in ex.map(run_one, muts):
            n[st] += 1
            line = '%s %s %s#%d %s | %s %s' % (st, m[3], m[1], m[2], m[0], what, hit or '')
            out.write(line + '\n')
            out.flush()
            if st == 'SURVIVED':
                print(line, flush=True)
    print(n)
