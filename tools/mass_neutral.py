#!/venv/bin/python
"""Mass behaviour-preserving transformations of the whole of crysp (scratch copy), then all 20 quick checks must stay silent.
usage: mass_neutral.py [transform ...]   (default: every transform separately, then all together)"""
import ast, os, sys, subprocess, shutil, tempfile, copy

PROPS = ['C%02d' % i for i in range(1, 21)]


class Docstrings(ast.NodeTransformer):
    "add a docstring to every function and class that has none"
    def _doc(self, node):
        self.generic_visit(node)
        if not ast.get_docstring(node):
            node.body.insert(0, ast.Expr(ast.Constant('documentation of %s' % node.name)))
        return node
    visit_FunctionDef = visit_ClassDef = _doc


class Annotations(ast.NodeTransformer):
    "annotate every parameter and return"
    def visit_FunctionDef(self, node):
        self.generic_visit(node)
        for a in node.args.posonlyargs + node.args.args + node.args.kwonlyargs:
            if a.arg not in ('self', 'cls'):
                a.annotation = ast.Constant('object')
        if node.returns is None:
            node.returns = ast.Constant('object')
        return node


class AnnAssigns(ast.NodeTransformer):
    "x = e  ->  x: 'object' = e for simple local names inside functions"
    def __init__(self): self.depth = 0
    def visit_FunctionDef(self, node):
        self.depth += 1; self.generic_visit(node); self.depth -= 1; return node
    def visit_Assign(self, node):
        if self.depth and len(node.targets) == 1 and isinstance(node.targets[0], ast.Name):
            return ast.AnnAssign(target=node.targets[0], annotation=ast.Constant('object'), value=node.value, simple=1)
        return node


class Messages(ast.NodeTransformer):
    "assert c  ->  assert c, 'message'; existing string messages of assert/raise reworded"
    def visit_Assert(self, node):
        node.msg = ast.Constant('assertion failed (reworded)')
        return node
    def visit_Raise(self, node):
        if isinstance(node.exc, ast.Call) and all(isinstance(a, ast.Constant) and isinstance(a.value, str) for a in node.exc.args) and not node.exc.keywords:
            node.exc.args = [ast.Constant('reworded message')]
        elif isinstance(node.exc, ast.Name):
            node.exc = ast.Call(node.exc, [ast.Constant('reworded message')], [])
        return node


class NewStyle(ast.NodeTransformer):
    "class X(object) -> class X ; super(X,self) -> super()"
    def visit_ClassDef(self, node):
        self.generic_visit(node)
        node.bases = [b for b in node.bases if not (isinstance(b, ast.Name) and b.id == 'object')]
        return node
    def visit_Call(self, node):
        self.generic_visit(node)
        if isinstance(node.func, ast.Name) and node.func.id == 'super' and len(node.args) == 2:
            node.args = []
        return node


class Extras(ast.NodeTransformer):
    "add an unused import, an unused module function and an unused method to every class"
    def visit_Module(self, node):
        self.generic_visit(node)
        i = 0
        while i < len(node.body) and (isinstance(node.body[i], (ast.Import, ast.ImportFrom)) or
                                      (isinstance(node.body[i], ast.Expr) and isinstance(node.body[i].value, ast.Constant))):
            i += 1
        node.body.insert(i, ast.parse('import logging as _logging').body[0])
        node.body.append(ast.parse('def _unused_debug_helper(x):\n    return repr(x)').body[0])
        return node
    def visit_ClassDef(self, node):
        self.generic_visit(node)
        node.body.append(ast.parse('def _debug_dump_%s(self):\n    return repr(self.__dict__)' % node.name).body[0])
        return node


class PassAndParens(ast.NodeTransformer):
    "append pass to every function body; else: pass on every else-less if"
    def visit_FunctionDef(self, node):
        self.generic_visit(node)
        if not isinstance(node.body[-1], (ast.Return, ast.Raise)):
            node.body.append(ast.Pass())
        return node
    def visit_If(self, node):
        self.generic_visit(node)
        if not node.orelse:
            node.orelse = [ast.Pass()]
        return node


class AugExpand(ast.NodeTransformer):
    "x op= e -> x = x op e for plain names"
    def visit_AugAssign(self, node):
        if isinstance(node.target, ast.Name):
            return ast.Assign([ast.Name(node.target.id, ast.Store())], ast.BinOp(ast.Name(node.target.id, ast.Load()), node.op, node.value))
        return node


class CmpFlip(ast.NodeTransformer):
    "a<b -> b>a, a<=b -> b>=a, a==b -> b==a (single comparisons)"
    FL = {ast.Lt: ast.Gt, ast.Gt: ast.Lt, ast.LtE: ast.GtE, ast.GtE: ast.LtE, ast.Eq: ast.Eq, ast.NotEq: ast.NotEq}
    def visit_Compare(self, node):
        self.generic_visit(node)
        if len(node.ops) == 1 and type(node.ops[0]) in self.FL:
            return ast.Compare(node.comparators[0], [self.FL[type(node.ops[0])]()], [node.left])
        return node


class IfNot(ast.NodeTransformer):
    "if c: A else: B -> if not c: B else: A"
    def visit_If(self, node):
        self.generic_visit(node)
        if node.orelse and not (len(node.orelse) == 1 and isinstance(node.orelse[0], ast.If)):
            return ast.If(ast.UnaryOp(ast.Not(), node.test), node.orelse, node.body)
        return node


class TempResult(ast.NodeTransformer):
    "return e -> _r = e; return _r"
    def visit_FunctionDef(self, node):
        self.generic_visit(node)
        return node
    def visit_Return(self, node):
        if node.value is None or isinstance(node.value, (ast.Name, ast.Constant)):
            return node
        return [ast.Assign([ast.Name('_result', ast.Store())], node.value), ast.Return(ast.Name('_result', ast.Load()))]


class NoneIs(ast.NodeTransformer):
    "x != None -> x is not None ; x == None -> x is None (pycodestyle E711)"
    def visit_Compare(self, node):
        self.generic_visit(node)
        if len(node.ops) == 1 and isinstance(node.comparators[0], ast.Constant) and node.comparators[0].value is None:
            if isinstance(node.ops[0], ast.NotEq): node.ops = [ast.IsNot()]
            elif isinstance(node.ops[0], ast.Eq): node.ops = [ast.Is()]
        return node


class RangeSliceZero(ast.NodeTransformer):
    "range(n) -> range(0,n) ; x[:n] -> x[0:n]"
    def visit_Call(self, node):
        self.generic_visit(node)
        if isinstance(node.func, ast.Name) and node.func.id == 'range' and len(node.args) == 1:
            node.args = [ast.Constant(0), node.args[0]]
        return node
    def visit_Slice(self, node):
        self.generic_visit(node)
        if node.lower is None and node.step is None:
            node.lower = ast.Constant(0)
        return node


class DeMorgan(ast.NodeTransformer):
    "a and b -> not (not a or not b) in if/while tests ; a or b likewise"
    def _t(self, t):
        if isinstance(t, ast.BoolOp):
            other = ast.Or() if isinstance(t.op, ast.And) else ast.And()
            return ast.UnaryOp(ast.Not(), ast.BoolOp(other, [ast.UnaryOp(ast.Not(), v) for v in t.values]))
        return t
    def visit_If(self, node):
        self.generic_visit(node); node.test = self._t(node.test); return node
    def visit_While(self, node):
        self.generic_visit(node); node.test = self._t(node.test); return node


class ChainSplit(ast.NodeTransformer):
    "a<b<c -> a<b and b<c when b is a name or constant"
    def visit_Compare(self, node):
        self.generic_visit(node)
        if len(node.ops) == 2 and isinstance(node.comparators[0], (ast.Name, ast.Constant)):
            m = node.comparators[0]
            return ast.BoolOp(ast.And(), [ast.Compare(node.left, [node.ops[0]], [m]), ast.Compare(copy.deepcopy(m), [node.ops[1]], [node.comparators[1]])])
        return node


class AugExpandAttr(ast.NodeTransformer):
    "self.a op= e -> self.a = self.a op e ; x[i] op= e likewise when i is a name or constant"
    def visit_AugAssign(self, node):
        t = node.target
        ok = isinstance(t, ast.Attribute) and isinstance(t.value, ast.Name)
        ok = ok or (isinstance(t, ast.Subscript) and isinstance(t.value, (ast.Name, ast.Attribute)) and isinstance(t.slice, (ast.Name, ast.Constant)))
        if ok:
            ld = copy.deepcopy(t); ld.ctx = ast.Load()
            return ast.Assign([t], ast.BinOp(ld, node.op, node.value))
        return node


class RenameLocals(ast.NodeTransformer):
    "rename every local variable (not parameters, not names declared global/nonlocal, not names of nested defs) of top-level functions and methods"
    def visit_FunctionDef(self, node):
        params = {a.arg for a in node.args.posonlyargs + node.args.args + node.args.kwonlyargs}
        if node.args.vararg: params.add(node.args.vararg.arg)
        if node.args.kwarg: params.add(node.args.kwarg.arg)
        skip = set(params)
        stores = set()
        nested = False
        for n in ast.walk(node):
            if isinstance(n, (ast.Global, ast.Nonlocal)): skip |= set(n.names)
            if isinstance(n, (ast.FunctionDef, ast.Lambda, ast.ClassDef)) and n is not node: nested = True
            if isinstance(n, (ast.ListComp, ast.GeneratorExp, ast.SetComp, ast.DictComp)): nested = True
            if isinstance(n, ast.Name) and isinstance(n.ctx, ast.Store): stores.add(n.id)
        if nested:
            return node       # scoping of nested functions / comprehensions: leave alone
        ren = {v: 'loc_' + v for v in stores - skip}
        for n in ast.walk(node):
            if isinstance(n, ast.Name) and n.id in ren:
                n.id = ren[n.id]
        return node


class EmptyLiterals(ast.NodeTransformer):
    "list() -> [] ; dict() -> {} ; [] -> list()"
    def visit_Call(self, node):
        self.generic_visit(node)
        if isinstance(node.func, ast.Name) and not node.args and not node.keywords:
            if node.func.id == 'list': return ast.List([], ast.Load())
            if node.func.id == 'dict': return ast.Dict([], [])
        return node


class RelImports(ast.NodeTransformer):
    "from crysp.x import ... -> from .x import ... (level by package depth)"
    depth = 1
    def visit_ImportFrom(self, node):
        if node.level == 0 and node.module and (node.module == 'crysp' or node.module.startswith('crysp.')):
            rest = node.module[6:] if node.module != 'crysp' else ''
            return ast.ImportFrom(rest or None, node.names, self.depth)
        return node


TRANSFORMS = {c.__name__: c for c in (NoneIs, RangeSliceZero, DeMorgan, ChainSplit, AugExpandAttr, RenameLocals, EmptyLiterals, RelImports, Docstrings, Annotations, AnnAssigns, Messages, NewStyle, Extras, PassAndParens, AugExpand, CmpFlip, IfNot, TempResult)}


def apply(root, names):
    n = 0
    for dp, dn, fn in os.walk(os.path.join(root, 'crysp')):
        for f in fn:
            if not f.endswith('.py'):
                continue
            p = os.path.join(dp, f)
            src = open(p).read()
            tree = ast.parse(src)
            for nm in names:
                tr = TRANSFORMS[nm]()
                if nm == 'RelImports':
                    tr.depth = os.path.relpath(p, root).count(os.sep)
                tree = tr.visit(tree)
            ast.fix_missing_locations(tree)
            out = ast.unparse(tree)
            compile(out, p, 'exec')
            open(p, 'w').write(out + '\n')
            n += 1
    return n


def run(names):
    t = tempfile.mkdtemp(prefix='mn_', dir='/tmp')
    try:
        subprocess.run('git -C /repo archive HEAD | tar -x -C %s' % t, shell=True, check=True)
        apply(t, names)
        bad = []
        procs = [(p, subprocess.Popen(['/venv/bin/python', '-m', 'sa.check', p, '--root', t], cwd='/verif',
                                      stdout=subprocess.PIPE, stderr=subprocess.STDOUT, text=True)) for p in PROPS]
        for p, pr in procs:
            out, _ = pr.communicate()
            if pr.returncode != 0:
                bad.append((p, pr.returncode, [l for l in out.splitlines() if 'differs' in l or 'VIOLATION' in l or 'ERROR' in l or ': C' in l][:6]))
        return bad
    finally:
        shutil.rmtree(t, ignore_errors=True)


if __name__ == '__main__':
    sets = [[a] for a in sys.argv[1:]] or ([[n] for n in TRANSFORMS] + [list(TRANSFORMS)])
    rc = 0
    for names in sets:
        bad = run(names)
        print('+'.join(names), 'silent' if not bad else 'REPORTED by %s' % ' '.join(p for p, _, _ in bad))
        for p, c, lines in bad:
            rc = 1
            for l in lines[:3]:
                print('    ', p, c, l[:220])
    sys.exit(rc)
