#!/venv/bin/python
"""Apply each behaviour-preserving variant to a scratch copy of /repo and run ALL checks that cover the touched files; report alarms."""
import sys, os, subprocess, json, shutil, tempfile, glob, concurrent.futures as cf
SRC = sys.argv[1]
props = {json.loads(l)['id']: json.loads(l)['anchors']['files'] for l in open('/verif/properties.jsonl')}
ALL = sorted(props)


def sh(cmd, cwd=None):
    p = subprocess.run(cmd, shell=True, cwd=cwd, capture_output=True, text=True)
    return p.returncode, p.stdout + p.stderr


def one(pdir):
    patch = os.path.join(pdir, 'patch.diff')
    d = tempfile.mkdtemp(prefix='nv_', dir='/tmp')
    try:
        sh('git -C /repo archive HEAD | tar -x -C %s' % d)
        rc, out = sh('patch -p1 -s -f < %s' % patch, cwd=d)
        if rc:
            return pdir, 'PATCH-FAILED', []
        alarms = []
        for p in ALL:
            rc, out = sh('/venv/bin/python -m sa.check %s --root %s' % (p, d), cwd='/verif')
            if rc != 0:
                lines = [l for l in out.splitlines() if ': C' in l or l.startswith('ANALYSIS') or 'integrity' in l]
                alarms.append((p, rc, lines[0][:330] if lines else out[-200:]))
        return pdir, 'ok', alarms
    finally:
        shutil.rmtree(d, ignore_errors=True)


dirs = sorted(os.path.dirname(p) for p in glob.glob(os.path.join(SRC, '*', 'n*', 'patch.diff')))
only = sys.argv[2:]
if only:
    dirs = [d for d in dirs if any(o in d for o in only)]
with cf.ThreadPoolExecutor(max_workers=8) as ex:
    for pdir, st, alarms in ex.map(one, dirs):
        tag = '/'.join(pdir.split('/')[-2:])
        if st != 'ok':
            print(tag, st)
        elif not alarms:
            print(tag, 'silent')
        else:
            for a in alarms:
                print(tag, 'ALARM', a[0], 'rc=%d' % a[1], a[2])
