#!/venv/bin/python
"""Store confirmed seeded changes: store_seeded.py <srcdir> <round>  (reads /tmp/confirm_seeded.json written by confirm_seeded.py)"""
import sys, os, json, shutil
src, rnd = sys.argv[1], int(sys.argv[2])
conf = json.load(open('/tmp/confirm_seeded.json'))
head = os.popen('git -C /repo rev-parse --short HEAD').read().strip()
n = 0
for key, r in sorted(conf.items()):
    pid, k = key.split('/')
    if not (r.get('ok') and r.get('detected')):
        print('skip', key, r.get('why', ''), 'ok=%s detected=%s' % (r.get('ok'), r.get('detected')))
        continue
    d = os.path.join(src, pid, k)
    dst = '/verif/seeded/%s_r%d%s' % (pid, rnd, k)
    os.makedirs(dst, exist_ok=True)
    shutil.copy(os.path.join(d, 'patch.diff'), dst)
    shutil.copy(os.path.join(d, 'demo.py'), dst)
    try:
        am = json.load(open(os.path.join(d, 'meta.json')))
    except Exception:
        am = {}
    meta = {'property': pid, 'round': rnd,
            'breaks': am.get('summary') or am.get('breaks') or am.get('what') or '',
            'file': am.get('file'), 'function': am.get('function'),
            'needs_to_manifest': am.get('trigger') or am.get('needs_to_manifest') or am.get('needs') or '',
            'origin': 'independent sub-agent (round %d) given only the property text and a scratch worktree' % rnd,
            'confirmed_by_me': {'repo_head': head, 'how': 'tools/confirm_seeded.py in a scratch worktree of /repo HEAD',
                                'demo_on_original': r['demo_on_original'], 'suite_on_mutant': r['suite_on_mutant'], 'demo_on_mutant': r['demo_on_mutant']},
            'check': {'cmd': '/venv/bin/python -m sa.check %s --tier quick' % pid, 'exit': r['check_rc'], 'first_report': r['check_report']},
            'agent_meta': am}
    json.dump(meta, open(os.path.join(dst, 'meta.json'), 'w'), indent=1)
    n += 1
print('stored', n)
