#!/venv/bin/python
"""sync_neutral.py <srcdir> <letter> <run-output>: store every variant of <srcdir>/Cxx/n<k> as neutral/Cxx_<letter><k> when the
run (tools/run_neutral.py output) shows it silent for ALL checks, else as neutral_limits/Cxx_<letter><k>."""
import sys, os, re, shutil
src, letter, runfile = sys.argv[1:4]
alarm = set()
for l in open(runfile):
    m = re.match(r'(C\d\d/n\d) (ALARM|PATCH-FAILED)', l)
    if m:
        alarm.add(m.group(1))
ns = nl = 0
for pid in sorted(os.listdir(src)):
    if not re.match(r'C\d\d$', pid):
        continue
    for v in sorted(os.listdir(os.path.join(src, pid))):
        d = os.path.join(src, pid, v)
        if not (re.match(r'n\d+$', v) and os.path.exists(d + '/patch.diff')):
            continue
        tag = '%s/%s' % (pid, v)
        name = '%s_%s%s' % (pid, letter, v[1:])
        for base in ('/verif/neutral/', '/verif/neutral_limits/'):
            shutil.rmtree(base + name, ignore_errors=True)
        dst = ('/verif/neutral_limits/' if tag in alarm else '/verif/neutral/') + name
        os.makedirs(dst)
        for f in ('patch.diff', 'demo.py', 'meta.json'):
            if os.path.exists(d + '/' + f):
                shutil.copy(d + '/' + f, dst)
        if tag in alarm:
            nl += 1
        else:
            ns += 1
print('silent', ns, 'limits', nl)
