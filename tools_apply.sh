#!/bin/bash
# usage: tools_apply.sh <patch> <prop> [tier]   -- apply patch to /repo, run check, revert
cd /repo && git apply "$1" || { echo "APPLY FAILED"; exit 9; }
cd /verif && /venv/bin/python -m sa.check "$2" --tier "${3:-quick}" 2>&1 | tail -${4:-6}
rc=${PIPESTATUS[0]}
git -C /repo checkout -- . 
echo "rc=$rc"
